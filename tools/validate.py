#!/usr/bin/env python3
"""Development tool: validates MANIFEST.json and evidence/*.json against the given schemas (python3-vt has jsonschema)."""
import json, glob, sys
import jsonschema
m = json.load(open('/verif/MANIFEST.json')); s = json.load(open('/root/.vp/MANIFEST.schema.json'))
jsonschema.validate(m, s); print("manifest ok:", [c["property_id"] for c in m["checks"]])
es = json.load(open('/root/.vp/EVIDENCE.schema.json'))
for p in sorted(glob.glob('/verif/evidence/*.json')):
    jsonschema.validate(json.load(open(p)), es); print(p, "ok")
