#!/bin/bash
# Development tool: confirm a seeded change and run checks against it.
# usage: tools/seedtest.sh <ID> <X> <check-id>...     (seed in /tmp/seed_out/<ID>/<X>, worktree /tmp/seed/<ID>)
ID=$1; X=$2; shift 2
S=/tmp/seed_out/$ID/$X; W=${SEEDW:-/tmp/seed}/$ID
set -u
cd $W || exit 9
git checkout -q -- . && git clean -fdq
echo "## confirm: demo on unchanged tree (must pass)"
mkdir -p tests && cp $S/demo.rs tests/demo.rs
CARGO_NET_OFFLINE=true cargo test --offline --test demo 2>&1 | grep -E "^test result|error" | head -3
echo "## confirm: apply patch, suite (must pass 55) and demo (must fail)"
git apply $S/patch.diff || { echo "PATCH DOES NOT APPLY"; exit 8; }
CARGO_NET_OFFLINE=true cargo test --offline --lib 2>&1 | grep -E "^test result|error\[" | head -3
CARGO_NET_OFFLINE=true cargo test --offline --test demo 2>&1 | grep -E "^test result|error\[" | head -3
rm -rf tests; git checkout -q -- . ; git clean -fdq
cd /verif
git -C /repo status --short | grep -q . && { echo "/repo not clean"; exit 7; }
git -C /repo apply $S/patch.diff || exit 6
for c in "$@"; do
  echo "## check $c (quick) on the seeded tree"
  ( time bin/check $c --tier quick ) 2>&1 | grep -E "VIOLATION|UNDECIDED|tier=|KNOWN|real|failed obligation" | head -12
  echo "exit=${PIPESTATUS[0]}"
done
git -C /repo checkout -- .
git -C /repo status --short
git -C /verif checkout -- evidence 2>/dev/null
