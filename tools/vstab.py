#!/usr/bin/env python3
"""Development tool: proof-stability pass - verifies each Verus unit (debug + release variants) under several Z3 seeds
and a halved resource limit; prints every function whose verdict changes.  usage: tools/vstab.py [unit ...]"""
import os, sys
sys.path.insert(0, os.path.join(os.path.dirname(os.path.abspath(__file__)), "..", "lib"))
import common, vbackend
units = vbackend.load_units()
names = sys.argv[1:] or sorted(units)
bad = 0
for n in names:
    for prof in ("debug", "release"):
        for args in (["--smt-option", "smt.random_seed=1"], ["--smt-option", "smt.random_seed=7"], ["--smt-option", "smt.random_seed=23"], ["--rlimit", "5"]):
            r = vbackend.run_unit(units, n, prof, extra_args=args, tag="_stab")
            fails = [f for f in r.fns.values() if f.ok is False]
            print(n, prof, " ".join(args), r.status, "verified", r.verified, "errors", r.errors, "%.0fs" % r.wall_s, [f.name for f in fails][:6], flush=True)
            for f in fails[:4]:
                print("    ", f.name, f.messages[:1])
            bad += len(fails) + (1 if r.status == "undecided" else 0)
print("UNSTABLE" if bad else "STABLE")
