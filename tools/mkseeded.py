#!/usr/bin/env python3
"""Development tool: files the confirmed seeded changes under /verif/seeded/<ID>-<X>/ (patch.diff, demo.rs, meta.json)
from the sub-agents' output directories and the log of tools/seedtest.sh runs.  usage: tools/mkseeded.py <log>..."""
import json, os, re, shutil, sys
OUT = "/verif/seeded"
SRC = "/tmp/seed_out"
# changes that only manifest in a release build: confirmed by hand with `cargo test --offline --release --test demo`
OVERRIDES = {
    "C17-A": "only manifests in a release build: scratch worktree, `cargo test --offline --release --test demo`: unchanged tree 4 passed; with the patch 1 passed, 3 failed (debug build with the patch: 4 passed); `cargo test --offline --lib` with the patch: 55 passed",
    "C17-C": "only manifests in a release build: scratch worktree, `cargo test --offline --release --test demo`: unchanged tree 3 passed; with the patch 2 of 3 failed (debug build with the patch: 3 passed); `cargo test --offline --lib` with the patch: 55 passed",
}
runs = {}
for log in sys.argv[1:]:
    cur = None
    for ln in open(log, errors="replace"):
        m = re.match(r"######## (C\d\d) (\w) (.*)", ln)
        if m:
            cur = (m.group(1), m.group(2))
            runs.setdefault(cur, []).append({"checks": {}, "confirm": [], "log": os.path.basename(log)})
            last_check = None
            continue
        if cur is None:
            continue
        r = runs[cur][-1]
        if ln.startswith("test result:"):
            r["confirm"].append(ln.strip())
        m = re.match(r"## check (C\d\d)", ln)
        if m:
            last_check = m.group(1)
            r["checks"][last_check] = {"lines": []}
        elif last_check and re.match(r"(C\d\d tier=|VIOLATION|UNDECIDED|KNOWN|exit=|\s+failed obligation)", ln):
            r["checks"][last_check]["lines"].append(ln.rstrip()[:300])
            m2 = re.match(r"exit=(\d+)", ln)
            if m2:
                r["checks"][last_check]["exit"] = int(m2.group(1))
for (pid, x), rl in sorted(runs.items()):
    r = rl[0]
    src = os.path.join(SRC, pid, x)
    if not os.path.exists(os.path.join(src, "patch.diff")):
        continue
    c = r["confirm"]
    confirmed = len(c) >= 3 and "ok." in c[0] and "55 passed" in c[1] and "FAILED" in c[2]
    d = os.path.join(OUT, "%s-%s" % (pid, x))
    os.makedirs(d, exist_ok=True)
    for f in ("patch.diff", "demo.rs", "README.md"):
        if os.path.exists(os.path.join(src, f)):
            shutil.copy(os.path.join(src, f), os.path.join(d, f))
    readme = open(os.path.join(src, "README.md"), errors="replace").read() if os.path.exists(os.path.join(src, "README.md")) else ""
    needs = ""
    m = re.search(r"(?is)(what .{0,40}needs?.{0,40}manifest.*?)(\n#|\Z)", readme)
    if m:
        needs = re.sub(r"\s+", " ", m.group(1))[:900]
    meta = {
        "id": "%s-%s" % (pid, x),
        "breaks_property": pid,
        "author": "independent sub-agent given only the property text and a scratch worktree",
        "needs_to_manifest": needs or "see README.md",
        "confirmed_by_me": confirmed,
        "confirmation": {"demo_on_unchanged_tree": c[0] if c else "", "suite_with_patch": c[1] if len(c) > 1 else "", "demo_with_patch": c[2] if len(c) > 2 else "",
                         "how": "scratch worktree /tmp/seed/%s: cargo test --offline --test demo (unchanged), git apply patch.diff, cargo test --offline --lib, cargo test --offline --test demo" % pid},
        "checks_run": [{"run": i + 1, "check": k, "command": "git -C /repo apply patch.diff; bin/check %s --tier quick; git -C /repo checkout -- ." % k,
                        "exit": v.get("exit"), "detected": v.get("exit") == 1, "output": v["lines"][:8]}
                       for i, rr in enumerate(rl) for k, v in rr["checks"].items()],
        "note": "run 1 = the machinery as it was when the change was first tried; later runs = after the strengthening described in DESIGN.md section 14",
    }
    ov = OVERRIDES.get(meta["id"])
    if ov:
        meta["confirmed_by_me"] = True
        meta["confirmation"]["note"] = ov
    json.dump(meta, open(os.path.join(d, "meta.json"), "w"), indent=1)
    print(meta["id"], "confirmed" if confirmed else "NOT CONFIRMED", [(c["run"], c["check"], c["exit"]) for c in meta["checks_run"]])
