#!/bin/sh
# Development tool: runs the thorough tier of the given properties one after the other (for `vp run`).
for p in "$@"; do
  echo "=== $p"; date
  bin/check "$p" --tier thorough 2>&1 | tail -12
  echo "exit=$?"
done
date
