#!/bin/sh
# Development tool: runs the thorough tier of the given properties one after the other (for `vp run --with-repo`:
# the checks then read the snapshot of /repo's HEAD, so that /repo itself can be used for seeded changes meanwhile).
[ -n "$VP_RUN_REPO" ] && export VERIF_REPO="$VP_RUN_REPO"
echo "repo: ${VERIF_REPO:-/repo}"
for p in "$@"; do
  echo "=== $p"; date
  bin/check "$p" --tier thorough 2>&1 | tail -12
  echo "exit=$?"
done
date
