use std::panic::catch_unwind;
use volute::*;
fn main() {
    std::panic::set_hook(Box::new(|_| {}));
    // D1
    let l = Lut::from_hex_string(1, "f");
    println!("D1a from_hex_string(1,\"f\") = {:?}", l.as_ref().map(|l| l.blocks().to_vec()));
    println!("D1a eq Lut::one(1)? {:?}", l.as_ref().map(|l| *l == Lut::one(1)));
    println!("D1b from_hex_string(3,\"+f\") = {:?}", Lut::from_hex_string(3, "+f").map(|l| l.to_hex_string()));
    // D2
    println!("D2 Lut::zero(0).p_canonization panics? {}", catch_unwind(|| Lut::zero(0).p_canonization()).is_err());
    println!("D2 Lut::one(0).n_canonization panics? {}", catch_unwind(|| Lut::one(0).n_canonization()).is_err());
    println!("D2 Lut1 npn panics? {}", catch_unwind(|| Lut1::nth_var(0).npn_canonization()).is_err());
    println!("D2 Lut1 n_canon = {:?}", catch_unwind(|| Lut1::one().n_canonization()).ok().map(|(l,m)| (l.to_hex_string(), m)));
    // D3
    let z = Lut2::zero();
    println!("D3 Lut2::zero npn = {:?}", catch_unwind(|| { let (c,p,m) = z.npn_canonization(); (c.to_hex_string(), p, m) }).ok());
    println!("D3 Lut3::zero p = {:?}", catch_unwind(|| { let (c,p) = Lut3::zero().p_canonization(); (c.to_hex_string(), p) }).ok());
    let f = Lut2::from_hex_string("1").unwrap();
    println!("D3 Lut2(1) npn = {:?}", catch_unwind(|| { let (c,p,m) = f.npn_canonization(); (c.to_hex_string(), p, m) }).ok());
    // D4: successor on [MAX, 0] needs internals; skip here
    // D5
    println!("D5 Lut::equals(3,64) = {:?}", catch_unwind(|| Lut::equals(3, 64).to_hex_string()).ok());
    println!("D5 Lut::equals(3,65) = {:?}", catch_unwind(|| Lut::equals(3, 65).to_hex_string()).ok());
    // D6
    println!("D6 Lut::one(3).cofactors(3) = {:?}", catch_unwind(|| { let (a,b) = Lut::one(3).cofactors(3); (a.blocks().to_vec(), b.blocks().to_vec()) }).ok());
    println!("D6 Lut::one(3).cofactors(4) = {:?}", catch_unwind(|| { let (a,b) = Lut::one(3).cofactors(4); (a.blocks().to_vec(), b.blocks().to_vec()) }).ok());
    println!("D6 from_cofactors idx 7 on n=3 = {:?}", catch_unwind(|| Lut::from_cofactors(&Lut::zero(3), &Lut::one(3), 7).to_hex_string()).ok());
}
