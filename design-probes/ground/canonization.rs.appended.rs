// appended to src/canonization.rs in the overlay copy (probe); run with `cargo test verif_ground_`
#[cfg(test)]
mod verif_ground_canon {
    use super::*;
    use std::collections::HashSet;

    fn flips_for(n: usize) -> Vec<u8> { if n <= 6 { FLIPS[n].to_vec() } else { generate_gray_flips(n, true) } }
    fn swaps_for(n: usize) -> Vec<u8> { if n <= 6 { SWAPS[n].to_vec() } else { generate_swaps(n, true) } }

    #[test]
    fn ground_flips_cover() {
        for n in 0..=8usize {
            let f = flips_for(n);
            let mut seen = HashSet::new();
            let mut cur = 0u32;
            for (k, x) in f.iter().enumerate() {
                assert!((*x as usize) < n, "n={} entry {} out of range", n, k);
                cur ^= 1 << x;
                assert!(seen.insert(cur), "n={} polarity {:b} visited twice at step {}", n, cur, k);
            }
            println!("GROUND flips n={} len={} distinct={} closed={}", n, f.len(), seen.len(), cur == 0);
            if n >= 1 {
                assert_eq!(seen.len(), 1 << n, "n={} not all polarities visited", n);
                assert_eq!(cur, 0, "n={} walk not closed", n);
            }
        }
    }

    #[test]
    fn ground_swaps_cover() {
        let mut fact = 1usize;
        for n in 0..=8usize {
            if n >= 1 { fact *= n; }
            let s = swaps_for(n);
            let mut seen = HashSet::new();
            let mut perm: Vec<u8> = (0..n as u8).collect();
            for (k, x) in s.iter().enumerate() {
                assert!((*x as usize) + 1 < n, "n={} entry {} out of range", n, k);
                perm.swap(*x as usize, *x as usize + 1);
                assert!(seen.insert(perm.clone()), "n={} order {:?} visited twice at step {}", n, perm, k);
            }
            let closed = perm == (0..n as u8).collect::<Vec<u8>>();
            println!("GROUND swaps n={} len={} distinct={} closed={}", n, s.len(), seen.len(), closed);
            if n >= 2 {
                assert_eq!(seen.len(), fact, "n={} not all orders visited", n);
                assert!(closed, "n={} walk not closed", n);
            }
        }
    }
}
