// appended to src/canonization.rs in the overlay copy (probe searcher)
#[cfg(test)]
mod verif_search_cert {
    use crate::Lut;
    fn apply(n: usize, f: &Lut, perm: &[u8], mask: u32) -> Lut {
        let mut g = Lut::zero(n);
        for y in 0..(1usize << n) {
            let mut x = 0usize;
            for i in 0..n {
                let yi = ((y >> i) & 1) ^ ((mask as usize >> i) & 1);
                x |= yi << (perm[i] as usize);
            }
            let v = f.value(x) ^ ((mask >> n) & 1 != 0);
            g.set_value(y, v);
        }
        g
    }
    #[test]
    fn certificates_and_minimum_small_n() {
        for n in 0..=4usize {
            let all: Vec<Lut> = Lut::all_functions(n).collect();
            let mut bad = 0usize;
            for f in all.iter() {
                let (c, perm, mask) = f.npn_canonization();
                assert!(mask < (1 << (n + 1)));
                if apply(n, f, &perm, mask) != c { bad += 1; if bad < 3 { println!("NPN bad cert n={} f={} c={} perm={:?} mask={}", n, f, c, perm, mask); } }
                let (c2, perm2) = f.p_canonization();
                if apply(n, f, &perm2, 0) != c2 { bad += 1; if bad < 3 { println!("P bad cert n={} f={} c={} perm={:?}", n, f, c2, perm2); } }
                let (c3, mask3) = f.n_canonization();
                let id: Vec<u8> = (0..n as u8).collect();
                if apply(n, f, &id, mask3) != c3 { bad += 1; if bad < 3 { println!("N bad cert n={} f={} c={} mask={}", n, f, c3, mask3); } }
                // idempotence and minimality w.r.t. own orbit member
                assert!(c <= *f && c2 <= *f && c3 <= *f);
                assert!(c.npn_canonization().0 == c);
            }
            println!("SEARCH n={} functions={} bad_certificates={}", n, all.len(), bad);
            assert_eq!(bad, 0);
        }
    }
}
