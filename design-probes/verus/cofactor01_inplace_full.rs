#![feature(panic_internals)]
#![feature(sized_hierarchy)]
use vstd::prelude::*;
use vstd::std_specs::iter::IteratorSpec;
verus! {
global size_of usize == 8;

#[verifier::external_type_specification]
pub struct ExAssertKind(core::panicking::AssertKind);

pub assume_specification<T, U> [core::panicking::assert_failed] (_0: core::panicking::AssertKind, _1: &T, _2: &U, _3: std::option::Option<std::fmt::Arguments<'_>>) -> !
          where
          T: std::marker::MetaSized + std::fmt::Debug + ?Sized,
          U: std::marker::MetaSized + std::fmt::Debug + ?Sized,
   requires false;

pub assume_specification<'a, T> [<&'a mut [T] as core::iter::IntoIterator>::into_iter] (s: &'a mut [T]) -> (r: core::slice::IterMut<'a, T>)
  ensures
    r.obeys_prophetic_iter_laws(), r.decrease() is Some, r.will_return_none(),
    r.remaining().len() == old(s)@.len(),
    final(s)@.len() == old(s)@.len(),
    forall|i: int| 0 <= i < old(s)@.len() ==> *(#[trigger] r.remaining()[i]) == old(s)@[i],
    forall|i: int| #![trigger r.remaining()[i]] #![trigger final(s)@[i]] 0 <= i < old(s)@.len() ==> *final(r.remaining()[i]) == final(s)@[i],
;

pub assume_specification<T> [<[T]>::swap] (s: &mut [T], a: usize, b: usize)
    requires a < old(s)@.len(), b < old(s)@.len(),
    ensures final(s)@ == old(s)@.update(a as int, old(s)@[b as int]).update(b as int, old(s)@[a as int]);

// ---------- spec vocabulary
pub open spec fn tsize(n: usize) -> usize { if n <= 6 { 1usize } else { 1usize << ((n - 6) as usize) } }

pub open spec fn vm(ind: usize) -> u64 {
    if ind == 0 { 0xaaaa_aaaa_aaaa_aaaau64 }
    else if ind == 1 { 0xcccc_cccc_cccc_ccccu64 }
    else if ind == 2 { 0xf0f0_f0f0_f0f0_f0f0u64 }
    else if ind == 3 { 0xff00_ff00_ff00_ff00u64 }
    else if ind == 4 { 0xffff_0000_ffff_0000u64 }
    else { 0xffff_ffff_0000_0000u64 }
}
pub open spec fn sh(ind: usize) -> i32 {
    if ind == 0 { 1i32 } else if ind == 1 { 2i32 } else if ind == 2 { 4i32 } else if ind == 3 { 8i32 } else if ind == 4 { 16i32 } else { 32i32 }
}
pub open spec fn flipw(t: u64, ind: usize) -> u64 {
    (((t & vm(ind)) >> (sh(ind) as u64)) | ((t & !vm(ind)) << (sh(ind) as u64)))
}
proof fn lemma_stride(i: usize, e: usize, ne: usize)
    requires e < ne < 58, i < (1usize << ne)
    ensures
        i & (1usize << e) == 0 ==> i + (1usize << e) < (1usize << ne) && add(i, (1usize << e)) == i ^ (1usize << e) && (i & !(1usize << e)) == i,
        i & (1usize << e) != 0 ==> (i & !(1usize << e)) < i,
        (i ^ (1usize << e)) < (1usize << ne),
{
    assert(e < ne && ne < 58 && i < (1usize << ne) ==> (
        (i & (1usize << e) == 0 ==> i <= sub(usize::MAX, (1usize << e)) && add(i, (1usize << e)) < (1usize << ne) && add(i, (1usize << e)) == i ^ (1usize << e) && (i & !(1usize << e)) == i)
        && (i & (1usize << e) != 0 ==> (i & !(1usize << e)) < i)
        && (i ^ (1usize << e)) < (1usize << ne))) by (bit_vector);
}
proof fn lemma_stride2(w: usize, i: usize, e: usize, ne: usize)
    requires e < ne < 58, w < (1usize << ne), i <= (1usize << ne)
    ensures
        (w ^ (1usize << e)) < (1usize << ne),
        ((w ^ (1usize << e)) & !(1usize << e)) == (w & !(1usize << e)),
        (w & !(1usize << e)) <= w,
        (w & !(1usize << e)) == w || (w & !(1usize << e)) == (w ^ (1usize << e)),
        (w & !(1usize << e)) < (1usize << ne),
        ((w ^ (1usize << e)) ^ (1usize << e)) == w,
        (w ^ (1usize << e)) != w,
{
    assert(e < ne && ne < 58 && w < (1usize << ne) ==> (
        (w ^ (1usize << e)) < (1usize << ne)
        && ((w ^ (1usize << e)) & !(1usize << e)) == (w & !(1usize << e))
        && (w & !(1usize << e)) <= w
        && ((w & !(1usize << e)) == w || (w & !(1usize << e)) == (w ^ (1usize << e)))
        && (w & !(1usize << e)) < (1usize << ne)
        && ((w ^ (1usize << e)) ^ (1usize << e)) == w
        && (w ^ (1usize << e)) != w)) by (bit_vector);
}
proof fn lemma_sh(ind: usize)
    requires ind <= 5
    ensures (1i32 << ind) == sh(ind)
{
    assert((1i32 << 0usize) == 1i32) by (bit_vector);
    assert((1i32 << 1usize) == 2i32) by (bit_vector);
    assert((1i32 << 2usize) == 4i32) by (bit_vector);
    assert((1i32 << 3usize) == 8i32) by (bit_vector);
    assert((1i32 << 4usize) == 16i32) by (bit_vector);
    assert((1i32 << 5usize) == 32i32) by (bit_vector);
}
proof fn lemma_flip_nocarry(t: u64, ind: usize)
    requires ind <= 5
    ensures
        ((t & vm(ind)) >> (sh(ind) as u64)) + ((t & !vm(ind)) << (sh(ind) as u64)) == flipw(t, ind),
        ((t & vm(ind)) >> (sh(ind) as u64)) + ((t & !vm(ind)) << (sh(ind) as u64)) <= u64::MAX,
{
    let m = vm(ind); let s = sh(ind) as u64;
    assert(
      ((ind == 0 && m == 0xaaaa_aaaa_aaaa_aaaau64 && s == 1) ||
       (ind == 1 && m == 0xcccc_cccc_cccc_ccccu64 && s == 2) ||
       (ind == 2 && m == 0xf0f0_f0f0_f0f0_f0f0u64 && s == 4) ||
       (ind == 3 && m == 0xff00_ff00_ff00_ff00u64 && s == 8) ||
       (ind == 4 && m == 0xffff_0000_ffff_0000u64 && s == 16) ||
       (ind == 5 && m == 0xffff_ffff_0000_0000u64 && s == 32)));
    assert(
      ((m == 0xaaaa_aaaa_aaaa_aaaau64 && s == 1) ||
       (m == 0xcccc_cccc_cccc_ccccu64 && s == 2) ||
       (m == 0xf0f0_f0f0_f0f0_f0f0u64 && s == 4) ||
       (m == 0xff00_ff00_ff00_ff00u64 && s == 8) ||
       (m == 0xffff_0000_ffff_0000u64 && s == 16) ||
       (m == 0xffff_ffff_0000_0000u64 && s == 32)) ==>
       (((t & m) >> s) & ((t & !m) << s)) == 0u64) by (bit_vector);
    let a = (t & m) >> s; let b = (t & !m) << s;
    assert(a & b == 0u64 ==> a <= sub(u64::MAX, b) && add(a, b) == a | b) by (bit_vector);
}

// ---------- extracted verbatim
pub const VAR_MASK: [u64; 6] = [
    0xaaaa_aaaa_aaaa_aaaa,
    0xcccc_cccc_cccc_cccc,
    0xf0f0_f0f0_f0f0_f0f0,
    0xff00_ff00_ff00_ff00,
    0xffff_0000_ffff_0000,
    0xffff_ffff_0000_0000,
];

#[verifier::when_used_as_spec(tsize)]
pub const fn table_size(num_vars: usize) -> (r: usize)
    requires num_vars < 64
    ensures r == tsize(num_vars)
{
    let v = if num_vars > 6 { num_vars } else { 6 };
    assert((1usize << 0usize) == 1usize) by (bit_vector);
    1 << (v - 6)
}

proof fn lemma_stride3(w: usize, e: usize, ne: usize)
    requires e < ne < 58, w < (1usize << ne)
    ensures ({
        let s = 1usize << e;
        &&& (w | s) < (1usize << ne)
        &&& ((w & !s) | s) == (w | s)
        &&& (w & s) == 0 ==> (w | s) == (w ^ s) && (w & !s) == w
        &&& (w & s) != 0 ==> (w | s) == w && (w & !s) == (w ^ s)
        &&& ((w & !s) & s) == 0
        &&& ((w & !s) | s) & !s == (w & !s)
    })
{
    let s = 1usize << e; let top = 1usize << ne;
    assert(e < ne && ne < 58 && w < top && s == 1usize << e && top == 1usize << ne ==> (
        (w | s) < top
        && ((w & !s) | s) == (w | s)
        && ((w & s) == 0 ==> (w | s) == (w ^ s) && (w & !s) == w)
        && ((w & s) != 0 ==> (w | s) == w && (w & !s) == (w ^ s))
        && ((w & !s) & s) == 0
        && (((w & !s) | s) & !s) == (w & !s)
    )) by (bit_vector);
}

pub open spec fn cof0w(t: u64, ind: usize) -> u64 { (t & !vm(ind)) | ((t & !vm(ind)) << (sh(ind) as u64)) }
pub open spec fn cof1w(t: u64, ind: usize) -> u64 { ((t & vm(ind)) >> (sh(ind) as u64)) | (t & vm(ind)) }
pub open spec fn mergew(t0: u64, t1: u64, ind: usize) -> u64 { (t1 & vm(ind)) | (t0 & !vm(ind)) }

proof fn lemma_cof_nocarry(t: u64, t2: u64, ind: usize)
    requires ind <= 5
    ensures ({
        let m = vm(ind); let s = sh(ind) as u64;
        &&& (t & !m) + ((t & !m) << s) <= u64::MAX
        &&& (t & !m) + ((t & !m) << s) == cof0w(t, ind)
        &&& ((t & m) >> s) + (t & m) <= u64::MAX
        &&& ((t & m) >> s) + (t & m) == cof1w(t, ind)
        &&& (t2 & m) + (t & !m) <= u64::MAX
        &&& (t2 & m) + (t & !m) == mergew(t, t2, ind)
    })
{
    let m = vm(ind); let s = sh(ind) as u64;
    assert(
      ((m == 0xaaaa_aaaa_aaaa_aaaau64 && s == 1) ||
       (m == 0xcccc_cccc_cccc_ccccu64 && s == 2) ||
       (m == 0xf0f0_f0f0_f0f0_f0f0u64 && s == 4) ||
       (m == 0xff00_ff00_ff00_ff00u64 && s == 8) ||
       (m == 0xffff_0000_ffff_0000u64 && s == 16) ||
       (m == 0xffff_ffff_0000_0000u64 && s == 32)) ==>
       ((t & !m) & ((t & !m) << s)) == 0u64
       && (((t & m) >> s) & (t & m)) == 0u64
       && ((t2 & m) & (t & !m)) == 0u64) by (bit_vector);
    let a = t & !m; let b = (t & !m) << s;
    assert(a & b == 0u64 ==> a <= sub(u64::MAX, b) && add(a, b) == a | b) by (bit_vector);
    let c = (t & m) >> s; let d = t & m;
    assert(c & d == 0u64 ==> c <= sub(u64::MAX, d) && add(c, d) == c | d) by (bit_vector);
    let e = t2 & m; let f = t & !m;
    assert(e & f == 0u64 ==> e <= sub(u64::MAX, f) && add(e, f) == e | f) by (bit_vector);
}
pub fn cofactor0_inplace(num_vars: usize, table: &mut [u64], ind: usize)
    requires num_vars < 64, ind < num_vars, old(table)@.len() == tsize(num_vars),
    ensures final(table)@.len() == old(table)@.len(),
       ind <= 5 ==> forall|w: int| 0 <= w < old(table)@.len() ==> #[trigger] final(table)@[w] == cof0w(old(table)@[w], ind),
       ind >= 6 ==> forall|w: int| 0 <= w < old(table)@.len() ==> #[trigger] final(table)@[w] == old(table)@[((w as usize) & !(1usize << ((ind - 6) as usize))) as int],
{
    debug_assert_eq!(table.len(), table_size(num_vars));
    debug_assert!(ind < num_vars);
    if ind <= 5 {
        let shift = 1 << ind;
        let m0 = !VAR_MASK[ind];
        let ghost g0 = table@;
        proof { lemma_sh(ind); }
        for t in it: table
            invariant
                it.seq().len() == g0.len(),
                ind <= 5, shift == sh(ind), m0 == !vm(ind),
                forall|q: int| 0 <= q < g0.len() ==> *(#[trigger] it.seq()[q]) == g0[q],
                forall|q: int| #![trigger it.seq()[q]] #![trigger final(table)@[q]] 0 <= q < g0.len() ==> *final(it.seq()[q]) == final(table)@[q],
                forall|q: int| 0 <= q < it.index@ ==> *final(#[trigger] it.seq()[q]) == cof0w(g0[q], ind),
        {
            proof { lemma_cof_nocarry(*t, 0, ind); }
            *t = (*t & m0) + ((*t & m0) << shift);
        }
    } else {
        let stride = 1 << (ind - 6);
        let ghost g0 = table@;
        let ghost e = (ind - 6) as usize;
        let ghost ne = (num_vars - 6) as usize;
        for i in iter: 0..table.len()
            invariant
                iter.seq().len() == g0.len(), i == iter.index@,
                e < ne < 58, stride == 1usize << e,
                table@.len() == g0.len(), g0.len() == 1usize << ne,
                forall|w: int| 0 <= w < g0.len() ==> #[trigger] table@[w] ==
                    (if ((w as usize) & !stride) < i { g0[((w as usize) & !stride) as int] } else { g0[w] }),
        {
            proof { lemma_stride(i, e, ne); lemma_stride3(i, e, ne); }
            let ghost tb = table@;
            if i & stride == 0 {
                table[i + stride] = table[i];
            }
            proof {
                assert forall|w: int| 0 <= w < g0.len() implies #[trigger] table@[w] ==
                    (if ((w as usize) & !stride) < i + 1 { g0[((w as usize) & !stride) as int] } else { g0[w] }) by {
                    let wu = w as usize;
                    lemma_stride2(wu, i, e, ne); lemma_stride3(wu, e, ne);
                    lemma_stride2(i, i, e, ne); lemma_stride3(i, e, ne);
                    if i & stride == 0 {
                        lemma_stride2((i + stride) as usize, i, e, ne); lemma_stride3((i + stride) as usize, e, ne);
                        if (wu & !stride) == i { assert(wu == i || wu == i + stride); }
                        else { assert(wu != i && wu != i + stride); }
                    } else {
                        assert((wu & !stride) != i);
                    }
                }
            }
        }
        proof {
            assert forall|w: int| 0 <= w < g0.len() implies #[trigger] table@[w] == g0[((w as usize) & !stride) as int] by {
                lemma_stride2(w as usize, 0, e, ne); lemma_stride3(w as usize, e, ne);
            }
        }
    }
}

pub fn cofactor1_inplace(num_vars: usize, table: &mut [u64], ind: usize)
    requires num_vars < 64, ind < num_vars, old(table)@.len() == tsize(num_vars),
    ensures final(table)@.len() == old(table)@.len(),
       ind <= 5 ==> forall|w: int| 0 <= w < old(table)@.len() ==> #[trigger] final(table)@[w] == cof1w(old(table)@[w], ind),
       ind >= 6 ==> forall|w: int| 0 <= w < old(table)@.len() ==> #[trigger] final(table)@[w] == old(table)@[((w as usize) | (1usize << ((ind - 6) as usize))) as int],
{
    debug_assert_eq!(table.len(), table_size(num_vars));
    debug_assert!(ind < num_vars);
    if ind <= 5 {
        let shift = 1 << ind;
        let m1 = VAR_MASK[ind];
        let ghost g0 = table@;
        proof { lemma_sh(ind); }
        for t in it: table
            invariant
                it.seq().len() == g0.len(),
                ind <= 5, shift == sh(ind), m1 == vm(ind),
                forall|q: int| 0 <= q < g0.len() ==> *(#[trigger] it.seq()[q]) == g0[q],
                forall|q: int| #![trigger it.seq()[q]] #![trigger final(table)@[q]] 0 <= q < g0.len() ==> *final(it.seq()[q]) == final(table)@[q],
                forall|q: int| 0 <= q < it.index@ ==> *final(#[trigger] it.seq()[q]) == cof1w(g0[q], ind),
        {
            proof { lemma_cof_nocarry(*t, 0, ind); }
            *t = ((*t & m1) >> shift) + (*t & m1);
        }
    } else {
        let stride = 1 << (ind - 6);
        let ghost g0 = table@;
        let ghost e = (ind - 6) as usize;
        let ghost ne = (num_vars - 6) as usize;
        for i in iter: 0..table.len()
            invariant
                iter.seq().len() == g0.len(), i == iter.index@,
                e < ne < 58, stride == 1usize << e,
                table@.len() == g0.len(), g0.len() == 1usize << ne,
                forall|w: int| 0 <= w < g0.len() ==> #[trigger] table@[w] ==
                    (if ((w as usize) & !stride) < i { g0[((w as usize) | stride) as int] } else { g0[w] }),
        {
            proof { lemma_stride(i, e, ne); lemma_stride3(i, e, ne); }
            let ghost tb = table@;
            if i & stride == 0 {
                table[i] = table[i + stride];
            }
            proof {
                assert forall|w: int| 0 <= w < g0.len() implies #[trigger] table@[w] ==
                    (if ((w as usize) & !stride) < i + 1 { g0[((w as usize) | stride) as int] } else { g0[w] }) by {
                    let wu = w as usize;
                    lemma_stride2(wu, i, e, ne); lemma_stride3(wu, e, ne);
                    lemma_stride2(i, i, e, ne); lemma_stride3(i, e, ne);
                    if i & stride == 0 {
                        lemma_stride2((i + stride) as usize, i, e, ne); lemma_stride3((i + stride) as usize, e, ne);
                        if (wu & !stride) == i { assert(wu == i || wu == i + stride); }
                        else { assert(wu != i && wu != i + stride); }
                    } else {
                        assert((wu & !stride) != i);
                    }
                }
            }
        }
        proof {
            assert forall|w: int| 0 <= w < g0.len() implies #[trigger] table@[w] == g0[((w as usize) | stride) as int] by {
                lemma_stride2(w as usize, 0, e, ne); lemma_stride3(w as usize, e, ne);
            }
        }
    }
}

}
fn main() {}
