use vstd::prelude::*;
use vstd::std_specs::iter::IteratorSpec;
verus! {
pub assume_specification<'a, T> [<&'a mut [T] as core::iter::IntoIterator>::into_iter] (s: &'a mut [T]) -> (r: core::slice::IterMut<'a, T>)
  ensures
    r.obeys_prophetic_iter_laws(), r.decrease() is Some, r.will_return_none(),
    r.remaining().len() == old(s)@.len(),
    final(s)@.len() == old(s)@.len(),
    forall|i: int| 0 <= i < old(s)@.len() ==> *(#[trigger] r.remaining()[i]) == old(s)@[i],
    forall|i: int| 0 <= i < old(s)@.len() ==> *final(#[trigger] r.remaining()[i]) == final(s)@[i],
;

pub fn not_inplace(mask: u64, table: &mut [u64])
    ensures 
      final(table)@.len() == old(table)@.len(),
      forall|i: int| 0 <= i < old(table)@.len() ==> #[trigger] final(table)@[i] == mask & !old(table)@[i],
{
    let ghost t0 = table@;
    for t in it: table
      invariant
        it.seq().len() == t0.len(),
        forall|j: int| 0 <= j < t0.len() ==> *(#[trigger] it.seq()[j]) == t0[j],
        forall|j: int| #![trigger it.seq()[j]] #![trigger final(table)@[j]] 0 <= j < t0.len() ==> *final(it.seq()[j]) == final(table)@[j],
        forall|j: int| 0 <= j < it.index@ ==> *final(#[trigger] it.seq()[j]) == mask & !t0[j],
    {
        *t = mask & !*t;
    }
}
}
fn main() {}
