use vstd::prelude::*;
verus! {
pub open spec fn lex_lt(a: Seq<u64>, b: Seq<u64>) -> bool
    decreases a.len()
{
    if a.len() == 0 || a.len() != b.len() { false }
    else if a.last() != b.last() { a.last() < b.last() }
    else { lex_lt(a.drop_last(), b.drop_last()) }
}
pub proof fn lemma_irrefl(a: Seq<u64>)
    ensures !lex_lt(a, a)
    decreases a.len()
{
    if a.len() > 0 { lemma_irrefl(a.drop_last()); }
}
pub proof fn lemma_trans(a: Seq<u64>, b: Seq<u64>, c: Seq<u64>)
    requires lex_lt(a, b), lex_lt(b, c)
    ensures lex_lt(a, c)
    decreases a.len()
{
    if a.len() > 0 && a.last() == b.last() && b.last() == c.last() {
        lemma_trans(a.drop_last(), b.drop_last(), c.drop_last());
    }
}
pub proof fn lemma_total(a: Seq<u64>, b: Seq<u64>)
    requires a.len() == b.len()
    ensures a == b || lex_lt(a, b) || lex_lt(b, a)
    decreases a.len()
{
    if a.len() == 0 {
        assert(a =~= b);
    } else if a.last() == b.last() {
        lemma_total(a.drop_last(), b.drop_last());
        if a.drop_last() == b.drop_last() {
            assert(a =~= a.drop_last().push(a.last()));
            assert(b =~= b.drop_last().push(b.last()));
        }
    }
}
}
fn main() {}
