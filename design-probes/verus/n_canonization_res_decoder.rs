#![feature(panic_internals)]
#![feature(sized_hierarchy)]
use vstd::prelude::*;
use vstd::std_specs::iter::IteratorSpec;
verus! {
global size_of usize == 8;

// mask after the first s comparison points of the N-walk
pub open spec fn n_mask(n: usize, flips: Seq<u8>, s: int) -> u32
    decreases s
{
    if s <= 0 { 0u32 }
    else {
        let prev = n_mask(n, flips, s - 1);
        let q = s - 1;
        let p1 = if q % 2 == 0 { prev ^ (1u32 << (flips[q / 2] as u32)) } else { prev };
        p1 ^ (1u32 << (n as u32))
    }
}

pub fn n_canonization_res(num_vars: usize, all_flips: &[u8], best_ind: usize) -> (r: u32)
    requires num_vars < 32, best_ind < 2 * all_flips@.len(), 2 * all_flips@.len() <= usize::MAX,
        forall|j: int| 0 <= j < all_flips@.len() ==> #[trigger] all_flips@[j] < 32,
    ensures r == n_mask(num_vars, all_flips@, best_ind as int + 1),
{
    let mut ind = 0;
    let mut cur_flip = 0;
    for flip in itf: all_flips
        invariant
            num_vars < 32, best_ind < 2 * all_flips@.len(), 2 * all_flips@.len() <= usize::MAX,
            forall|j: int| 0 <= j < all_flips@.len() ==> #[trigger] all_flips@[j] < 32,
            itf.seq().len() == all_flips@.len(), forall|j: int| 0 <= j < all_flips@.len() ==> *(#[trigger] itf.seq()[j]) == all_flips@[j],
            ind == 2 * itf.index@, ind <= best_ind,
            cur_flip == n_mask(num_vars, all_flips@, ind as int),
    {
        let ghost b = itf.index@;
        cur_flip ^= 1 << *flip;
        for _ in itc: 0..2
            invariant
                num_vars < 32, best_ind < 2 * all_flips@.len(), 2 * all_flips@.len() <= usize::MAX,
                0 <= b < all_flips@.len(), all_flips@[b] < 32,
                itc.seq().len() == 2,
                ind == 2 * b + itc.index@, ind <= best_ind,
                itc.index@ == 0 ==> cur_flip == n_mask(num_vars, all_flips@, ind as int) ^ (1u32 << (all_flips@[b] as u32)),
                itc.index@ > 0 ==> cur_flip == n_mask(num_vars, all_flips@, ind as int),
        {
            cur_flip ^= 1 << num_vars;
            if ind == best_ind {
                return cur_flip;
            }
            ind += 1;
        }
    }
    // Should never arrive there...
    panic!();
}
}
fn main() {}
