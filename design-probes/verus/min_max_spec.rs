use vstd::prelude::*;
use vstd::std_specs::cmp::*;
verus! {
pub assume_specification<T: core::cmp::Ord> [core::cmp::min] (a: T, b: T) -> (r: T)
    ensures T::obeys_cmp_spec() ==> r == (if a.cmp_spec(&b) == core::cmp::Ordering::Greater { b } else { a });
pub assume_specification<T: core::cmp::Ord> [core::cmp::max] (a: T, b: T) -> (r: T)
    ensures T::obeys_cmp_spec() ==> r == (if a.cmp_spec(&b) == core::cmp::Ordering::Greater { a } else { b });

pub fn f(x: usize) -> (r: usize)
  ensures r <= 6, r == if x <= 6 { x } else { 6 }
{
    core::cmp::min(x, 6)
}
pub fn g(x: usize, y: usize) -> (r: usize)
  ensures r >= x, r >= y, r == x || r == y
{
    core::cmp::max(x, y)
}
}
fn main() {}
