use vstd::prelude::*;
use vstd::std_specs::iter::IteratorSpec;
verus! {
pub fn first5(table: &mut [u64]) -> (r: bool)
    ensures final(table)@.len() == old(table)@.len(),
        old(table)@.len() > 0 ==> final(table)@[0] == 5,
        forall|w: int| 1 <= w < old(table)@.len() ==> #[trigger] final(table)@[w] == old(table)@[w],
{
    let ghost g0 = table@;
    for t in it: table.iter_mut()
        invariant
            it.seq().len() == g0.len(),
            it.index@ == 0,
            forall|q: int| 0 <= q < g0.len() ==> *(#[trigger] it.seq()[q]) == g0[q],
    {
        *t = 5;
        return true;
    }
    false
}
}
fn main() {}
