#![feature(panic_internals)]
#![feature(sized_hierarchy)]
use vstd::prelude::*;
use vstd::std_specs::iter::IteratorSpec;
verus! {
global size_of usize == 8;

pub assume_specification<T: Clone> [<[T]>::clone_from_slice] (dst: &mut [T], src: &[T])
    requires old(dst)@.len() == src@.len(),
    ensures final(dst)@ == src@;

pub assume_specification [core::cmp::Ordering::is_lt] (o: core::cmp::Ordering) -> (r: bool)
    ensures r == (o == core::cmp::Ordering::Less);

pub uninterp spec fn swap_adj_spec(n: usize, t: Seq<u64>, i: usize) -> Seq<u64>;
pub uninterp spec fn tt_lt(a: Seq<u64>, b: Seq<u64>) -> bool;

// assumed here, discharged elsewhere (lemma_lex_total_order): strict order laws
#[verifier::external_body]
pub proof fn tt_lt_laws()
    ensures
        forall|a: Seq<u64>| !#[trigger] tt_lt(a, a),
        forall|a: Seq<u64>, b: Seq<u64>, c: Seq<u64>| #![trigger tt_lt(a, b), tt_lt(b, c)] tt_lt(a, b) && tt_lt(b, c) ==> tt_lt(a, c),
{}

#[verifier::external_body]
pub fn swap_adjacent_inplace(num_vars: usize, table: &mut [u64], ind: usize)
    ensures final(table)@ == swap_adj_spec(num_vars, old(table)@, ind), final(table)@.len() == old(table)@.len()
{ unimplemented!() }

#[verifier::external_body]
pub fn cmp(table1: &[u64], table2: &[u64]) -> (r: core::cmp::Ordering)
    requires table1@.len() == table2@.len()
    ensures (r == core::cmp::Ordering::Less) == tt_lt(table1@, table2@)
{ unimplemented!() }

pub open spec fn p_walk(n: usize, t0: Seq<u64>, swaps: Seq<u8>, k: int) -> Seq<u64>
    decreases k
{
    if k <= 0 { t0 } else { swap_adj_spec(n, p_walk(n, t0, swaps, k - 1), swaps[k - 1] as usize) }
}

pub open spec fn no_smaller(n: usize, t0: Seq<u64>, swaps: Seq<u8>, k: int, best: Seq<u64>) -> bool {
    forall|j: int| 0 <= j <= k ==> !tt_lt(#[trigger] p_walk(n, t0, swaps, j), best)
}

pub fn p_canonization_ind(
    num_vars: usize,
    table: &mut [u64],
    best: &mut [u64],
    all_swaps: &[u8],
) -> (best_ind: usize)
    requires old(table)@.len() == old(best)@.len(), all_swaps@.len() <= usize::MAX,
    ensures
       final(table)@ == p_walk(num_vars, old(table)@, all_swaps@, all_swaps@.len() as int),
       no_smaller(num_vars, old(table)@, all_swaps@, all_swaps@.len() as int, final(best)@),
       // certificate link: best is the table reached after best_ind+1 steps, unless nothing beat the start
       (final(best)@ == old(table)@) || (best_ind < all_swaps@.len() && p_walk(num_vars, old(table)@, all_swaps@, best_ind as int + 1) == final(best)@),
{
    best.clone_from_slice(table);
    let mut best_ind = 0;
    let mut ind = 0;
    let ghost t0 = table@;
    proof { tt_lt_laws(); }
    for swap in it: all_swaps
        invariant
            ind == it.index@, it.seq().len() == all_swaps@.len(), all_swaps@.len() <= usize::MAX, forall|j: int| 0 <= j < all_swaps@.len() ==> *(#[trigger] it.seq()[j]) == all_swaps@[j],
            table@.len() == t0.len(), best@.len() == t0.len(),
            table@ == p_walk(num_vars, t0, all_swaps@, it.index@),
            no_smaller(num_vars, t0, all_swaps@, it.index@, best@),
            (best@ == t0) || (best_ind < it.index@ && p_walk(num_vars, t0, all_swaps@, best_ind as int + 1) == best@),
    {
        let ghost k = it.index@;
        let ghost old_best = best@;
        swap_adjacent_inplace(num_vars, table, *swap as usize);
        assert(table@ == p_walk(num_vars, t0, all_swaps@, k + 1));
        if cmp(table, best).is_lt() {
            best_ind = ind;
            best.clone_from_slice(table);
        }
        proof {
            assert(k < all_swaps@.len());
            tt_lt_laws();
            assert forall|j: int| 0 <= j <= k + 1 implies !tt_lt(#[trigger] p_walk(num_vars, t0, all_swaps@, j), best@) by {
                if j <= k {
                    assert(!tt_lt(p_walk(num_vars, t0, all_swaps@, j), old_best));
                }
            }
        }
        ind += 1
    }
    best_ind
}
}
fn main() {}
