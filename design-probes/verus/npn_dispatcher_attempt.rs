#![feature(panic_internals)]
#![feature(sized_hierarchy)]
use vstd::prelude::*;
verus! {
global size_of usize == 8;
// the sequences actually used for n variables, as spec constants; their properties are ground facts
pub uninterp spec fn flips_spec(n: usize) -> Seq<u8>;
pub uninterp spec fn swaps_spec(n: usize) -> Seq<u8>;
// ground facts (discharged by the ground evaluator on the real tables/generators)
#[verifier::external_body]
pub proof fn ground_lens(n: usize)
    requires n <= 8
    ensures flips_spec(n).len() == (if n == 0 { 0nat } else { vstd::arithmetic::power2::pow2(n as nat) }),
            n >= 2 ==> swaps_spec(n).len() >= 2,
            n <= 1 ==> swaps_spec(n).len() == 0,
            2 * swaps_spec(n).len() * flips_spec(n).len() <= usize::MAX,
{}

exec const FLIPS: &'static [&'static [u8]]
    ensures FLIPS@.len() == 7, forall|n: int| 0 <= n < 7 ==> (#[trigger] FLIPS@[n])@ == flips_spec(n as usize)
{ &[
    &[],
    &[0, 0],
    &[0, 1, 0, 1],
    &[0, 1, 0, 2, 0, 1, 0, 2],
    &[0, 1, 0, 2, 0, 1, 0, 3, 0, 1, 0, 2, 0, 1, 0, 3],
    &[
        0, 1, 0, 2, 0, 1, 0, 3, 0, 1, 0, 2, 0, 1, 0, 4, 0, 1, 0, 2, 0, 1, 0, 3, 0, 1, 0, 2, 0, 1,
        0, 4,
    ],
    &[
        0, 1, 0, 2, 0, 1, 0, 3, 0, 1, 0, 2, 0, 1, 0, 4, 0, 1, 0, 2, 0, 1, 0, 3, 0, 1, 0, 2, 0, 1,
        0, 5, 0, 1, 0, 2, 0, 1, 0, 3, 0, 1, 0, 2, 0, 1, 0, 4, 0, 1, 0, 2, 0, 1, 0, 3, 0, 1, 0, 2,
        0, 1, 0, 5,
    ],
] }

/// Adjacent swaps to visit all possible permutations (Steinhaus-Johnson-Trotter)
exec const SWAPS: &'static [&'static [u8]]
    ensures SWAPS@.len() == 7, forall|n: int| 0 <= n < 7 ==> (#[trigger] SWAPS@[n])@ == swaps_spec(n as usize)
{ &[
    &[],
    &[],
    &[0, 0],
    &[0, 1, 0, 1, 0, 1],
    &[
        0, 1, 2, 0, 2, 1, 0, 2, 0, 1, 2, 0, 2, 1, 0, 2, 0, 1, 2, 0, 2, 1, 0, 2,
    ],
    &[
        0, 1, 2, 3, 0, 3, 2, 1, 0, 2, 0, 1, 2, 3, 2, 3, 2, 1, 0, 1, 0, 1, 2, 3, 2, 3, 2, 1, 0, 2,
        0, 1, 2, 3, 0, 3, 2, 1, 0, 3, 0, 1, 2, 3, 0, 3, 2, 1, 0, 2, 0, 1, 2, 3, 2, 3, 2, 1, 0, 1,
        0, 1, 2, 3, 2, 3, 2, 1, 0, 2, 0, 1, 2, 3, 0, 3, 2, 1, 0, 3, 0, 1, 2, 3, 0, 3, 2, 1, 0, 2,
        0, 1, 2, 3, 2, 3, 2, 1, 0, 1, 0, 1, 2, 3, 2, 3, 2, 1, 0, 2, 0, 1, 2, 3, 0, 3, 2, 1, 0, 3,
    ],
    &[
        0, 1, 2, 3, 4, 0, 4, 3, 2, 1, 0, 2, 0, 1, 2, 3, 4, 2, 4, 3, 2, 1, 0, 4, 0, 1, 2, 3, 4, 0,
        4, 3, 2, 1, 0, 4, 0, 1, 2, 3, 4, 2, 4, 3, 2, 1, 0, 2, 0, 1, 2, 3, 4, 0, 4, 3, 2, 1, 0, 3,
        0, 1, 2, 3, 4, 0, 4, 3, 2, 1, 0, 2, 0, 1, 2, 3, 4, 2, 4, 3, 2, 1, 0, 4, 0, 1, 2, 3, 4, 2,
        4, 3, 2, 1, 0, 4, 0, 1, 2, 3, 4, 2, 4, 3, 2, 1, 0, 2, 0, 1, 2, 3, 4, 0, 4, 3, 2, 1, 0, 2,
        0, 1, 2, 3, 4, 0, 4, 3, 2, 1, 0, 2, 0, 1, 2, 3, 4, 2, 4, 3, 2, 1, 0, 4, 0, 1, 2, 3, 4, 2,
        4, 3, 2, 1, 0, 4, 0, 1, 2, 3, 4, 2, 4, 3, 2, 1, 0, 2, 0, 1, 2, 3, 4, 0, 4, 3, 2, 1, 0, 3,
        0, 1, 2, 3, 4, 0, 4, 3, 2, 1, 0, 2, 0, 1, 2, 3, 4, 2, 4, 3, 2, 1, 0, 4, 0, 1, 2, 3, 4, 0,
        4, 3, 2, 1, 0, 4, 0, 1, 2, 3, 4, 2, 4, 3, 2, 1, 0, 2, 0, 1, 2, 3, 4, 0, 4, 3, 2, 1, 0, 4,
        0, 1, 2, 3, 4, 0, 4, 3, 2, 1, 0, 2, 0, 1, 2, 3, 4, 2, 4, 3, 2, 1, 0, 4, 0, 1, 2, 3, 4, 0,
        4, 3, 2, 1, 0, 4, 0, 1, 2, 3, 4, 2, 4, 3, 2, 1, 0, 2, 0, 1, 2, 3, 4, 0, 4, 3, 2, 1, 0, 3,
        0, 1, 2, 3, 4, 0, 4, 3, 2, 1, 0, 2, 0, 1, 2, 3, 4, 2, 4, 3, 2, 1, 0, 4, 0, 1, 2, 3, 4, 2,
        4, 3, 2, 1, 0, 4, 0, 1, 2, 3, 4, 2, 4, 3, 2, 1, 0, 2, 0, 1, 2, 3, 4, 0, 4, 3, 2, 1, 0, 2,
        0, 1, 2, 3, 4, 0, 4, 3, 2, 1, 0, 2, 0, 1, 2, 3, 4, 2, 4, 3, 2, 1, 0, 4, 0, 1, 2, 3, 4, 2,
        4, 3, 2, 1, 0, 4, 0, 1, 2, 3, 4, 2, 4, 3, 2, 1, 0, 2, 0, 1, 2, 3, 4, 0, 4, 3, 2, 1, 0, 3,
        0, 1, 2, 3, 4, 0, 4, 3, 2, 1, 0, 2, 0, 1, 2, 3, 4, 2, 4, 3, 2, 1, 0, 4, 0, 1, 2, 3, 4, 0,
        4, 3, 2, 1, 0, 4, 0, 1, 2, 3, 4, 2, 4, 3, 2, 1, 0, 2, 0, 1, 2, 3, 4, 0, 4, 3, 2, 1, 0, 4,
        0, 1, 2, 3, 4, 0, 4, 3, 2, 1, 0, 2, 0, 1, 2, 3, 4, 2, 4, 3, 2, 1, 0, 4, 0, 1, 2, 3, 4, 0,
        4, 3, 2, 1, 0, 4, 0, 1, 2, 3, 4, 2, 4, 3, 2, 1, 0, 2, 0, 1, 2, 3, 4, 0, 4, 3, 2, 1, 0, 3,
        0, 1, 2, 3, 4, 0, 4, 3, 2, 1, 0, 2, 0, 1, 2, 3, 4, 2, 4, 3, 2, 1, 0, 4, 0, 1, 2, 3, 4, 2,
        4, 3, 2, 1, 0, 4, 0, 1, 2, 3, 4, 2, 4, 3, 2, 1, 0, 2, 0, 1, 2, 3, 4, 0, 4, 3, 2, 1, 0, 2,
        0, 1, 2, 3, 4, 0, 4, 3, 2, 1, 0, 2, 0, 1, 2, 3, 4, 2, 4, 3, 2, 1, 0, 4, 0, 1, 2, 3, 4, 2,
        4, 3, 2, 1, 0, 4, 0, 1, 2, 3, 4, 2, 4, 3, 2, 1, 0, 2, 0, 1, 2, 3, 4, 0, 4, 3, 2, 1, 0, 3,
        0, 1, 2, 3, 4, 0, 4, 3, 2, 1, 0, 2, 0, 1, 2, 3, 4, 2, 4, 3, 2, 1, 0, 4, 0, 1, 2, 3, 4, 0,
        4, 3, 2, 1, 0, 4, 0, 1, 2, 3, 4, 2, 4, 3, 2, 1, 0, 2, 0, 1, 2, 3, 4, 0, 4, 3, 2, 1, 0, 4,
    ],
] }


#[verifier::external_body]
pub fn generate_swaps(num_vars: usize, rollback: bool) -> (r: Vec<u8>)
    ensures rollback ==> r@ == swaps_spec(num_vars)
{ unimplemented!() }
#[verifier::external_body]
pub fn generate_gray_flips(nb_bits: usize, rollback: bool) -> (r: Vec<u8>)
    ensures rollback ==> r@ == flips_spec(nb_bits)
{ unimplemented!() }

#[verifier::external_body]
pub fn npn_canonization_ind(num_vars: usize, table: &mut [u64], best: &mut [u64], all_swaps: &[u8], all_flips: &[u8]) -> (best_ind: usize)
    requires old(table)@.len() == old(best)@.len(), all_flips@.len() > 0, 2 * all_swaps@.len() * all_flips@.len() <= usize::MAX,
    ensures final(table)@.len() == old(table)@.len(), final(best)@.len() == old(best)@.len(),
        best_ind == 0 || best_ind < 2 * all_swaps@.len() * all_flips@.len(),
{ unimplemented!() }
#[verifier::external_body]
pub fn npn_canonization_res(num_vars: usize, res_perm: &mut [u8], all_swaps: &[u8], all_flips: &[u8], best_ind: usize) -> (r: u32)
    requires num_vars < 32, old(res_perm)@.len() == num_vars, best_ind < 2 * all_swaps@.len() * all_flips@.len(),
    ensures final(res_perm)@.len() == num_vars,
{ unimplemented!() }

pub fn npn_canonization(
    num_vars: usize,
    table: &mut [u64],
    best: &mut [u64],
    res_perm: &mut [u8],
) -> (r: u32)
    requires num_vars <= 8, old(table)@.len() == old(best)@.len(), old(table)@.len() >= 1, old(res_perm)@.len() == num_vars,
{
    proof { ground_lens(num_vars); }
    if num_vars <= 6 {
        let best_ind = npn_canonization_ind(
            num_vars,
            &mut table[0..1],
            &mut best[0..1],
            SWAPS[num_vars],
            FLIPS[num_vars],
        );
        npn_canonization_res(
            num_vars,
            res_perm,
            SWAPS[num_vars],
            FLIPS[num_vars],
            best_ind,
        )
    } else {
        let all_swaps = generate_swaps(num_vars, true);
        let all_flips = generate_gray_flips(num_vars, true);
        let best_ind = npn_canonization_ind(num_vars, table, best, &all_swaps, &all_flips);
        npn_canonization_res(num_vars, res_perm, &all_swaps, &all_flips, best_ind)
    }
}
}
fn main() {}
