use vstd::prelude::*;
verus! {
global size_of usize == 8;
pub open spec fn bit(t: Seq<u64>, m: int) -> bool { ((t[m / 64] >> ((m % 64) as u64)) & 1) == 1 }
pub uninterp spec fn swap_adj_spec(n: usize, t: Seq<u64>, i: usize) -> Seq<u64>;
pub uninterp spec fn swapbits(m: int, i: int, j: int) -> int;   // defined concretely in the real prelude

// assumed here: bit-level contract of swap_adjacent_inplace (discharged by the C03 unit)
#[verifier::external_body]
pub proof fn swap_adj_bits(n: usize, t: Seq<u64>, i: usize, m: int)
    requires i + 1 < n, 0 <= m < pow2n(n)
    ensures bit(swap_adj_spec(n, t, i), m) == bit(t, swapbits(m, i as int, i as int + 1)),
            0 <= swapbits(m, i as int, i as int + 1) < pow2n(n),
{}
pub uninterp spec fn pow2n(n: usize) -> int;

pub open spec fn p_walk(n: usize, t0: Seq<u64>, swaps: Seq<u8>, k: int) -> Seq<u64>
    decreases k
{
    if k <= 0 { t0 } else { swap_adj_spec(n, p_walk(n, t0, swaps, k - 1), swaps[k - 1] as usize) }
}
// composed index map: walk(k)[m] reads t0 at pi(k, m)
pub open spec fn pi(swaps: Seq<u8>, k: int, m: int) -> int
    decreases k
{
    if k <= 0 { m } else { pi(swaps, k - 1, swapbits(m, swaps[k - 1] as int, swaps[k - 1] as int + 1)) }
}

pub proof fn lemma_walk_pi(n: usize, t0: Seq<u64>, swaps: Seq<u8>, k: int, m: int)
    requires 0 <= k <= swaps.len(), 0 <= m < pow2n(n),
        forall|j: int| 0 <= j < swaps.len() ==> #[trigger] swaps[j] + 1 < n,
    ensures bit(p_walk(n, t0, swaps, k), m) == bit(t0, pi(swaps, k, m)), 0 <= pi(swaps, k, m) < pow2n(n)
    decreases k
{
    if k > 0 {
        let s = swaps[k - 1] as usize;
        swap_adj_bits(n, p_walk(n, t0, swaps, k - 1), s, m);
        lemma_walk_pi(n, t0, swaps, k - 1, swapbits(m, s as int, s as int + 1));
    }
}
}
fn main() {}
