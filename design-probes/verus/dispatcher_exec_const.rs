use vstd::prelude::*;
verus! {
exec const FLIPS: &'static [&'static [u8]] = &[
    &[],
    &[0, 0],
    &[0, 1, 0, 1],
];
#[verifier::external_body]
pub fn n_ind(num_vars: usize, table: &mut [u64], best: &mut [u64], all_flips: &[u8]) -> usize { unimplemented!() }
#[verifier::external_body]
pub fn n_res(num_vars: usize, all_flips: &[u8], best_ind: usize) -> u32 { unimplemented!() }
#[verifier::external_body]
pub fn gen(nb_bits: usize, rollback: bool) -> Vec<u8> { unimplemented!() }

pub fn n_canonization(num_vars: usize, table: &mut [u64], best: &mut [u64]) -> u32 
  requires old(table)@.len() >= 1, old(best)@.len() >= 1, num_vars <= 2 || num_vars > 6
{
    if num_vars <= 6 {
        let best_ind =
            n_ind(num_vars, &mut table[0..1], &mut best[0..1], FLIPS[num_vars]);
        n_res(num_vars, FLIPS[num_vars], best_ind)
    } else {
        let all_flips = gen(num_vars, true);
        let best_ind = n_ind(num_vars, table, best, &all_flips);
        n_res(num_vars, &all_flips, best_ind)
    }
}
}
fn main() {}
