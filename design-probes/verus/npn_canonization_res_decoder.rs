#![feature(panic_internals)]
#![feature(sized_hierarchy)]
use vstd::prelude::*;
use vstd::std_specs::iter::IteratorSpec;
verus! {
global size_of usize == 8;

#[verifier::external_type_specification]
pub struct ExAssertKind(core::panicking::AssertKind);
pub assume_specification<T, U> [core::panicking::assert_failed] (_0: core::panicking::AssertKind, _1: &T, _2: &U, _3: std::option::Option<std::fmt::Arguments<'_>>) -> !
          where
          T: std::marker::MetaSized + std::fmt::Debug + ?Sized,
          U: std::marker::MetaSized + std::fmt::Debug + ?Sized,
   requires false;
pub assume_specification<T> [<[T]>::swap] (s: &mut [T], a: usize, b: usize)
    requires a < old(s)@.len(), b < old(s)@.len(),
    ensures final(s)@ == old(s)@.update(a as int, old(s)@[b as int]).update(b as int, old(s)@[a as int]);

pub open spec fn ident(n: int) -> Seq<u8> { Seq::new(n as nat, |i: int| i as u8) }
pub open spec fn swap2(p: Seq<u8>, a: int) -> Seq<u8> { p.update(a, p[a + 1]).update(a + 1, p[a]) }
// permutation after applying the first k adjacent transpositions of the sequence to the identity
pub open spec fn perm_at(n: int, swaps: Seq<u8>, k: int) -> Seq<u8>
    decreases k
{
    if k <= 0 { ident(n) } else { swap2(perm_at(n, swaps, k - 1), swaps[k - 1] as int) }
}


// mask after the first s comparison points of the NPN walk (flat index as in the _ind spec)
pub open spec fn npn_mask(n: usize, flips: Seq<u8>, s: int) -> u32
    decreases s
{
    let f = flips.len() as int;
    if s <= 0 || f == 0 { 0u32 }
    else {
        let prev = npn_mask(n, flips, s - 1);
        let q = s - 1;
        let b = (q / 2) % f;
        let p1 = if q % 2 == 0 { prev ^ (1u32 << (flips[b] as u32)) } else { prev };
        p1 ^ (1u32 << (n as u32))
    }
}

pub fn npn_canonization_res(
    num_vars: usize,
    res_perm: &mut [u8],
    all_swaps: &[u8],
    all_flips: &[u8],
    best_ind: usize,
) -> (r: u32)
    requires
        num_vars < 32, old(res_perm)@.len() == num_vars,
        all_flips@.len() > 0,
        2 * all_swaps@.len() * all_flips@.len() <= usize::MAX,
        best_ind < 2 * all_swaps@.len() * all_flips@.len(),
        forall|j: int| 0 <= j < all_swaps@.len() ==> #[trigger] all_swaps@[j] + 1 < num_vars,
        forall|j: int| 0 <= j < all_flips@.len() ==> #[trigger] all_flips@[j] < 32,
    ensures
        r == npn_mask(num_vars, all_flips@, best_ind as int + 1),
        final(res_perm)@ =~= perm_at(num_vars as int, all_swaps@, (best_ind as int / 2) / (all_flips@.len() as int) + 1),
{
    assert_eq!(res_perm.len(), num_vars);
    for i in iter: 0..res_perm.len()
        invariant
            iter.seq().len() == num_vars, i == iter.index@, res_perm@.len() == num_vars, num_vars < 32,
            forall|q: int| 0 <= q < i ==> #[trigger] res_perm@[q] == q as u8,
    {
        res_perm[i] = i as u8;
    }
    let mut ind = 0;
    let mut cur_flip = 0;
    let ghost S = all_swaps@.len() as int;
    let ghost F = all_flips@.len() as int;

    for swap in its: all_swaps
        invariant
            S == all_swaps@.len(), F == all_flips@.len(), F > 0, 2 * S * F <= usize::MAX, num_vars < 32,
            best_ind < 2 * S * F,
            forall|j: int| 0 <= j < S ==> #[trigger] all_swaps@[j] + 1 < num_vars,
            forall|j: int| 0 <= j < F ==> #[trigger] all_flips@[j] < 32,
            its.seq().len() == S, forall|j: int| 0 <= j < S ==> *(#[trigger] its.seq()[j]) == all_swaps@[j],
            res_perm@.len() == num_vars,
            ind == 2 * F * its.index@, ind <= best_ind,
            res_perm@ =~= perm_at(num_vars as int, all_swaps@, its.index@),
            cur_flip == npn_mask(num_vars, all_flips@, ind as int),
    {
        let ghost a = its.index@;
        let swp = *swap as usize;
        res_perm.swap(swp, swp + 1);
        for flip in itf: all_flips
            invariant
                S == all_swaps@.len(), F == all_flips@.len(), F > 0, 2 * S * F <= usize::MAX, num_vars < 32, 0 <= a < S,
                best_ind < 2 * S * F,
                forall|j: int| 0 <= j < F ==> #[trigger] all_flips@[j] < 32,
                itf.seq().len() == F, forall|j: int| 0 <= j < F ==> *(#[trigger] itf.seq()[j]) == all_flips@[j],
                res_perm@.len() == num_vars,
                ind == 2 * F * a + 2 * itf.index@, ind <= best_ind,
                res_perm@ =~= perm_at(num_vars as int, all_swaps@, a + 1),
                cur_flip == npn_mask(num_vars, all_flips@, ind as int),
        {
            let ghost b = itf.index@;
            cur_flip ^= 1 << *flip;
            for _ in itc: 0..2
                invariant
                    S == all_swaps@.len(), F == all_flips@.len(), F > 0, 2 * S * F <= usize::MAX, num_vars < 32, 0 <= a < S, 0 <= b < F,
                    best_ind < 2 * S * F, all_flips@[b] < 32,
                    itc.seq().len() == 2,
                    res_perm@.len() == num_vars,
                    ind == 2 * F * a + 2 * b + itc.index@, ind <= best_ind,
                    res_perm@ =~= perm_at(num_vars as int, all_swaps@, a + 1),
                    itc.index@ == 0 ==> cur_flip == npn_mask(num_vars, all_flips@, ind as int) ^ (1u32 << (all_flips@[b] as u32)),
                    itc.index@ > 0 ==> cur_flip == npn_mask(num_vars, all_flips@, ind as int),
            {
                let ghost c = itc.index@;
                let ghost q = ind as int;
                proof {
                    assert(q == 2 * (F * a + b) + c) by (nonlinear_arith) requires q == 2 * F * a + 2 * b + c;
                    assert(q % 2 == c && q / 2 == F * a + b);
                    vstd::arithmetic::div_mod::lemma_fundamental_div_mod_converse(F * a + b, F, a, b);
                    assert(2 * F * a + 2 * b + c < 2 * S * F) by (nonlinear_arith) requires 0 <= a < S, 0 <= b < F, 0 <= c < 2;
                }
                cur_flip ^= 1 << num_vars;
                if ind == best_ind {
                    return cur_flip;
                }
                ind += 1;
            }
        }
        proof {
            assert(2 * F * a + 2 * F == 2 * F * (a + 1)) by (nonlinear_arith);
        }
    }
    // Should never arrive there...
    proof { assert(2 * F * S == 2 * S * F) by (nonlinear_arith); }
    panic!();
}
}
fn main() {}
