#![feature(panic_internals)]
#![feature(sized_hierarchy)]
use vstd::prelude::*;
use vstd::std_specs::iter::IteratorSpec;
verus! {

pub assume_specification<T: Clone> [<[T]>::clone_from_slice] (dst: &mut [T], src: &[T])
    requires old(dst)@.len() == src@.len(),
    ensures final(dst)@ == src@;   // (for T = u64/u8: clone is copy)

pub assume_specification [core::cmp::Ordering::is_lt] (o: core::cmp::Ordering) -> (r: bool)
    ensures r == (o == core::cmp::Ordering::Less);

// abstract action of an adjacent swap on a table (defined concretely elsewhere; here uninterpreted)
pub uninterp spec fn swap_adj_spec(n: usize, t: Seq<u64>, i: usize) -> Seq<u64>;
// abstract strict order used by cmp
pub uninterp spec fn tt_lt(a: Seq<u64>, b: Seq<u64>) -> bool;

#[verifier::external_body]
pub fn swap_adjacent_inplace(num_vars: usize, table: &mut [u64], ind: usize)
    ensures final(table)@ == swap_adj_spec(num_vars, old(table)@, ind), final(table)@.len() == old(table)@.len()
{ unimplemented!() }

#[verifier::external_body]
pub fn cmp(table1: &[u64], table2: &[u64]) -> (r: core::cmp::Ordering)
    requires table1@.len() == table2@.len()
    ensures (r == core::cmp::Ordering::Less) == tt_lt(table1@, table2@)
{ unimplemented!() }

pub open spec fn p_walk(n: usize, t0: Seq<u64>, swaps: Seq<u8>, k: int) -> Seq<u64>
    decreases k
{
    if k <= 0 { t0 } else { swap_adj_spec(n, p_walk(n, t0, swaps, k - 1), swaps[k - 1] as usize) }
}

// best is a running minimum: no visited table is strictly smaller, and best is one of the visited tables
pub open spec fn is_min_of_walk(n: usize, t0: Seq<u64>, swaps: Seq<u8>, k: int, best: Seq<u64>) -> bool {
    &&& (forall|j: int| 0 <= j <= k ==> !tt_lt(#[trigger] p_walk(n, t0, swaps, j), best))
    &&& (exists|j: int| 0 <= j <= k && #[trigger] p_walk(n, t0, swaps, j) == best)
}

pub fn p_canonization_ind(
    num_vars: usize,
    table: &mut [u64],
    best: &mut [u64],
    all_swaps: &[u8],
) -> (best_ind: usize)
    requires old(table)@.len() == old(best)@.len(),
       forall|a: Seq<u64>, b: Seq<u64>, c: Seq<u64>| #![trigger tt_lt(a, b), tt_lt(c, b)] tt_lt(a, b) && !tt_lt(c, a) ==> tt_lt(c, b) || !tt_lt(c, b) ,
       forall|a: Seq<u64>| !#[trigger] tt_lt(a, a),
       forall|a: Seq<u64>, b: Seq<u64>, c: Seq<u64>| #![trigger tt_lt(c, a), tt_lt(a, b)] tt_lt(a, b) && tt_lt(c, a) ==> tt_lt(c, b),
    ensures
       final(table)@ == p_walk(num_vars, old(table)@, all_swaps@, all_swaps@.len() as int),
       is_min_of_walk(num_vars, old(table)@, all_swaps@, all_swaps@.len() as int, final(best)@),
       (final(best)@ == old(table)@ && best_ind == 0) || (best_ind < all_swaps@.len() && p_walk(num_vars, old(table)@, all_swaps@, best_ind as int + 1) == final(best)@),
{
    best.clone_from_slice(table);
    let mut best_ind = 0;
    let mut ind = 0;
    let ghost t0 = table@;
    for swap in it: all_swaps
        invariant
            ind == it.index@, it.seq().len() == all_swaps@.len(),
            is_min_of_walk(num_vars, t0, all_swaps@, it.index@, best@),
            (best@ == t0 && best_ind == 0) || (best_ind < it.index@ && p_walk(num_vars, t0, all_swaps@, best_ind as int + 1) == best@),
            table@.len() == t0.len(), best@.len() == t0.len(),
            table@ == p_walk(num_vars, t0, all_swaps@, it.index@),
    {
        swap_adjacent_inplace(num_vars, table, *swap as usize);
        if cmp(table, best).is_lt() {
            best_ind = ind;
            best.clone_from_slice(table);
        }
        ind += 1
    }
    best_ind
}
}
fn main() {}
