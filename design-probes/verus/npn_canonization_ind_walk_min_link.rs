#![feature(panic_internals)]
#![feature(sized_hierarchy)]
use vstd::prelude::*;
use vstd::std_specs::iter::IteratorSpec;
verus! {
global size_of usize == 8;

pub assume_specification<T: Clone> [<[T]>::clone_from_slice] (dst: &mut [T], src: &[T])
    requires old(dst)@.len() == src@.len(),
    ensures final(dst)@ == src@;
pub assume_specification [core::cmp::Ordering::is_lt] (o: core::cmp::Ordering) -> (r: bool)
    ensures r == (o == core::cmp::Ordering::Less);

pub uninterp spec fn swap_adj_spec(n: usize, t: Seq<u64>, i: usize) -> Seq<u64>;
pub uninterp spec fn flip_spec(n: usize, t: Seq<u64>, i: usize) -> Seq<u64>;
pub uninterp spec fn not_spec(n: usize, t: Seq<u64>) -> Seq<u64>;
pub uninterp spec fn tt_lt(a: Seq<u64>, b: Seq<u64>) -> bool;

#[verifier::external_body]
pub proof fn tt_lt_laws()
    ensures
        forall|a: Seq<u64>| !#[trigger] tt_lt(a, a),
        forall|a: Seq<u64>, b: Seq<u64>, c: Seq<u64>| #![trigger tt_lt(a, b), tt_lt(b, c)] tt_lt(a, b) && tt_lt(b, c) ==> tt_lt(a, c),
{}
#[verifier::external_body]
pub fn swap_adjacent_inplace(num_vars: usize, table: &mut [u64], ind: usize)
    ensures final(table)@ == swap_adj_spec(num_vars, old(table)@, ind), final(table)@.len() == old(table)@.len()
{ unimplemented!() }
#[verifier::external_body]
pub fn flip_inplace(num_vars: usize, table: &mut [u64], ind: usize)
    ensures final(table)@ == flip_spec(num_vars, old(table)@, ind), final(table)@.len() == old(table)@.len()
{ unimplemented!() }
#[verifier::external_body]
pub fn not_inplace(num_vars: usize, table: &mut [u64])
    ensures final(table)@ == not_spec(num_vars, old(table)@), final(table)@.len() == old(table)@.len()
{ unimplemented!() }
#[verifier::external_body]
pub fn cmp(table1: &[u64], table2: &[u64]) -> (r: core::cmp::Ordering)
    requires table1@.len() == table2@.len()
    ensures (r == core::cmp::Ordering::Less) == tt_lt(table1@, table2@)
{ unimplemented!() }

// ---- the walk, as a spec of my own: step index s = (a*F + b)*2 + c, a < S swaps, b < F flips, c < 2
// state after the first `s` comparison points
pub open spec fn npn_state(n: usize, t0: Seq<u64>, swaps: Seq<u8>, flips: Seq<u8>, s: int) -> Seq<u64>
    decreases s
{
    let f = flips.len() as int;
    if s <= 0 || f == 0 { t0 }
    else {
        let prev = npn_state(n, t0, swaps, flips, s - 1);
        let q = s - 1;           // index of the comparison point being produced
        let c = q % 2;
        let b = (q / 2) % f;
        let a = (q / 2) / f;
        let p1 = if c == 0 && b == 0 { swap_adj_spec(n, prev, swaps[a] as usize) } else { prev };
        let p2 = if c == 0 { flip_spec(n, p1, flips[b] as usize) } else { p1 };
        not_spec(n, p2)
    }
}

pub open spec fn no_smaller(n: usize, t0: Seq<u64>, swaps: Seq<u8>, flips: Seq<u8>, k: int, best: Seq<u64>) -> bool {
    forall|j: int| 0 <= j <= k ==> !tt_lt(#[trigger] npn_state(n, t0, swaps, flips, j), best)
}

pub fn npn_canonization_ind(
    num_vars: usize,
    table: &mut [u64],
    best: &mut [u64],
    all_swaps: &[u8],
    all_flips: &[u8],
) -> (best_ind: usize)
    requires old(table)@.len() == old(best)@.len(),
        all_flips@.len() > 0,
        2 * all_swaps@.len() * all_flips@.len() <= usize::MAX,
    ensures
        final(table)@ == npn_state(num_vars, old(table)@, all_swaps@, all_flips@, (2 * all_swaps@.len() * all_flips@.len()) as int),
        no_smaller(num_vars, old(table)@, all_swaps@, all_flips@, (2 * all_swaps@.len() * all_flips@.len()) as int, final(best)@),
        (final(best)@ == old(table)@) || (best_ind < 2 * all_swaps@.len() * all_flips@.len()
            && npn_state(num_vars, old(table)@, all_swaps@, all_flips@, best_ind as int + 1) == final(best)@),
{
    best.clone_from_slice(table);
    let mut best_ind = 0;
    let mut ind = 0;
    let ghost t0 = table@;
    let ghost S = all_swaps@.len() as int;
    let ghost F = all_flips@.len() as int;
    proof { tt_lt_laws(); }
    for swap in its: all_swaps
        invariant
            S == all_swaps@.len(), F == all_flips@.len(), F > 0, 2 * S * F <= usize::MAX,
            its.seq().len() == S, forall|j: int| 0 <= j < S ==> *(#[trigger] its.seq()[j]) == all_swaps@[j],
            ind == 2 * F * its.index@,
            table@.len() == t0.len(), best@.len() == t0.len(),
            table@ == npn_state(num_vars, t0, all_swaps@, all_flips@, ind as int),
            no_smaller(num_vars, t0, all_swaps@, all_flips@, ind as int, best@),
            (best@ == t0) || (best_ind < ind && npn_state(num_vars, t0, all_swaps@, all_flips@, best_ind as int + 1) == best@),
    {
        let ghost a = its.index@;
        swap_adjacent_inplace(num_vars, table, *swap as usize);
        let ghost tsw = table@;
        for flip in itf: all_flips
            invariant
                S == all_swaps@.len(), F == all_flips@.len(), F > 0, 2 * S * F <= usize::MAX, 0 <= a < S,
                itf.seq().len() == F, forall|j: int| 0 <= j < F ==> *(#[trigger] itf.seq()[j]) == all_flips@[j],
                ind == 2 * F * a + 2 * itf.index@,
                table@.len() == t0.len(), best@.len() == t0.len(),
                itf.index@ == 0 ==> table@ == swap_adj_spec(num_vars, npn_state(num_vars, t0, all_swaps@, all_flips@, ind as int), all_swaps@[a] as usize),
                itf.index@ > 0 ==> table@ == npn_state(num_vars, t0, all_swaps@, all_flips@, ind as int),
                no_smaller(num_vars, t0, all_swaps@, all_flips@, ind as int, best@),
                (best@ == t0) || (best_ind < ind && npn_state(num_vars, t0, all_swaps@, all_flips@, best_ind as int + 1) == best@),
        {
            let ghost b = itf.index@;
            flip_inplace(num_vars, table, *flip as usize);
            let ghost tfl = table@;
            for _ in itc: 0..2
                invariant
                    S == all_swaps@.len(), F == all_flips@.len(), F > 0, 2 * S * F <= usize::MAX, 0 <= a < S, 0 <= b < F,
                    itc.seq().len() == 2,
                    ind == 2 * F * a + 2 * b + itc.index@,
                    table@.len() == t0.len(), best@.len() == t0.len(),
                    itc.index@ == 0 ==> table@ == tfl,
                    itc.index@ == 0 ==> tfl == flip_spec(num_vars,
                        (if b == 0 { swap_adj_spec(num_vars, npn_state(num_vars, t0, all_swaps@, all_flips@, ind as int), all_swaps@[a] as usize) }
                         else { npn_state(num_vars, t0, all_swaps@, all_flips@, ind as int) }), all_flips@[b] as usize),
                    itc.index@ > 0 ==> table@ == npn_state(num_vars, t0, all_swaps@, all_flips@, ind as int),
                    no_smaller(num_vars, t0, all_swaps@, all_flips@, ind as int, best@),
                    (best@ == t0) || (best_ind < ind && npn_state(num_vars, t0, all_swaps@, all_flips@, best_ind as int + 1) == best@),
            {
                let ghost c = itc.index@;
                let ghost q = ind as int;
                let ghost old_best = best@;
                proof {
                    assert(q == 2 * (F * a + b) + c) by (nonlinear_arith) requires q == 2 * F * a + 2 * b + c;
                    assert(q % 2 == c && q / 2 == F * a + b);
                    vstd::arithmetic::div_mod::lemma_fundamental_div_mod_converse(F * a + b, F, a, b);
                    assert(2 * F * a + 2 * b + c < 2 * S * F) by (nonlinear_arith) requires 0 <= a < S, 0 <= b < F, 0 <= c < 2;
                }
                not_inplace(num_vars, table);
                assert(table@ == npn_state(num_vars, t0, all_swaps@, all_flips@, q + 1));
                if cmp(table, best).is_lt() {
                    best_ind = ind;
                    best.clone_from_slice(table);
                }
                proof {
                    tt_lt_laws();
                    assert forall|j: int| 0 <= j <= q + 1 implies !tt_lt(#[trigger] npn_state(num_vars, t0, all_swaps@, all_flips@, j), best@) by {
                        if j <= q { assert(!tt_lt(npn_state(num_vars, t0, all_swaps@, all_flips@, j), old_best)); }
                    }
                }
                ind += 1;
            }
        }
        proof {
            assert(2 * F * a + 2 * F == 2 * F * (a + 1)) by (nonlinear_arith);
        }
    }
    proof {
        assert(2 * F * S == 2 * S * F) by (nonlinear_arith);
    }
    best_ind
}
}
fn main() {}
