use vstd::prelude::*;
verus! {
proof fn lemma_word_ext(a: u64, b: u64)
    requires forall|k: u64| k < 64 ==> ((a >> k) & 1) == ((b >> k) & 1)
    ensures a == b
{
    // contrapositive with an explicit witness: the lowest differing bit
    if a != b {
        let d = a ^ b;
        // trailing-zero witness via case split is awkward; use bit_vector to get existence
        assert(a != b ==> exists|k: u64| k < 64 && ((a >> k) & 1) != ((b >> k) & 1)) by (bit_vector);
    }
}
}
fn main() {}
