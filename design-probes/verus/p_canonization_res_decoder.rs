#![feature(panic_internals)]
#![feature(sized_hierarchy)]
use vstd::prelude::*;
use vstd::std_specs::iter::IteratorSpec;
verus! {
global size_of usize == 8;

#[verifier::external_type_specification]
pub struct ExAssertKind(core::panicking::AssertKind);
pub assume_specification<T, U> [core::panicking::assert_failed] (_0: core::panicking::AssertKind, _1: &T, _2: &U, _3: std::option::Option<std::fmt::Arguments<'_>>) -> !
          where
          T: std::marker::MetaSized + std::fmt::Debug + ?Sized,
          U: std::marker::MetaSized + std::fmt::Debug + ?Sized,
   requires false;
pub assume_specification<T> [<[T]>::swap] (s: &mut [T], a: usize, b: usize)
    requires a < old(s)@.len(), b < old(s)@.len(),
    ensures final(s)@ == old(s)@.update(a as int, old(s)@[b as int]).update(b as int, old(s)@[a as int]);

pub open spec fn ident(n: int) -> Seq<u8> { Seq::new(n as nat, |i: int| i as u8) }
pub open spec fn swap2(p: Seq<u8>, a: int) -> Seq<u8> { p.update(a, p[a + 1]).update(a + 1, p[a]) }
// permutation after applying the first k adjacent transpositions of the sequence to the identity
pub open spec fn perm_at(n: int, swaps: Seq<u8>, k: int) -> Seq<u8>
    decreases k
{
    if k <= 0 { ident(n) } else { swap2(perm_at(n, swaps, k - 1), swaps[k - 1] as int) }
}

/// Find the corresponding permutation given the index of the best result
pub fn p_canonization_res(num_vars: usize, res_perm: &mut [u8], all_swaps: &[u8], best_ind: usize)
    requires
        num_vars <= 255, old(res_perm)@.len() == num_vars,
        best_ind < all_swaps@.len(), all_swaps@.len() <= usize::MAX,
        forall|j: int| 0 <= j < all_swaps@.len() ==> #[trigger] all_swaps@[j] + 1 < num_vars,
    ensures
        final(res_perm)@ =~= perm_at(num_vars as int, all_swaps@, best_ind as int + 1),
{
    assert!(best_ind <= all_swaps.len());
    assert_eq!(res_perm.len(), num_vars);
    for i in iter: 0..res_perm.len()
        invariant
            iter.seq().len() == num_vars, i == iter.index@, res_perm@.len() == num_vars, num_vars <= 255,
            forall|q: int| 0 <= q < i ==> #[trigger] res_perm@[q] == q as u8,
    {
        res_perm[i] = i as u8;
    }
    let mut ind = 0;
    for swap in it: all_swaps
        invariant
            it.seq().len() == all_swaps@.len(), forall|j: int| 0 <= j < all_swaps@.len() ==> *(#[trigger] it.seq()[j]) == all_swaps@[j],
            best_ind < all_swaps@.len(), all_swaps@.len() <= usize::MAX,
            forall|j: int| 0 <= j < all_swaps@.len() ==> #[trigger] all_swaps@[j] + 1 < num_vars,
            res_perm@.len() == num_vars,
            ind == it.index@, ind <= best_ind,
            res_perm@ =~= perm_at(num_vars as int, all_swaps@, ind as int),
    {
        let swp = *swap as usize;
        res_perm.swap(swp, swp + 1);
        if ind == best_ind {
            return;
        }
        ind += 1;
    }
    // Should never arrive there...
    panic!();
}
}
fn main() {}
