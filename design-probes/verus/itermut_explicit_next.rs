use vstd::prelude::*;
use vstd::std_specs::iter::IteratorSpec;
verus! {
pub fn probe2(table: &mut [u64])
    ensures forall|i: int| 0 <= i < old(table)@.len() ==> final(table)@[i] == 5,
    final(table)@.len() == old(table)@.len(),
{
    let ghost n = table@.len();
    let mut it = table.iter_mut();
    let ghost rem = it.remaining();
    let ghost mut k: int = 0;
    loop 
       invariant 0 <= k <= n, rem.len() == n, it.remaining() == rem.skip(k), it.obeys_prophetic_iter_laws(),
         forall|j: int| 0 <= j < k ==> *final(#[trigger] rem[j]) == 5,
       ensures k == n,
       decreases n - k
    {
        match it.next() {
          Some(t) => { *t = 5; proof { k = k + 1; } }
          None => { break; }
        }
    }
    assert(table@.len() == n);
    assert(forall|j: int| 0 <= j < n ==> *final(#[trigger] rem[j]) == table@[j]);
}
}
fn main() {}
