use vstd::prelude::*;
verus! {
pub open spec fn vm(ind: u64) -> u64 {
    if ind == 0 { 0xaaaa_aaaa_aaaa_aaaau64 }
    else if ind == 1 { 0xcccc_cccc_cccc_ccccu64 }
    else if ind == 2 { 0xf0f0_f0f0_f0f0_f0f0u64 }
    else if ind == 3 { 0xff00_ff00_ff00_ff00u64 }
    else if ind == 4 { 0xffff_0000_ffff_0000u64 }
    else { 0xffff_ffff_0000_0000u64 }
}
proof fn lemma_flip_word(t: u64, ind: u64, k: u64)
    requires ind <= 5, k < 64
    ensures 
      (((((t & vm(ind)) >> (1u64 << ind)) + ((t & !vm(ind)) << (1u64 << ind))) as u64) >> k) & 1 == (t >> (k ^ (1u64 << ind))) & 1
{
    let m = vm(ind);
    assert(
      (ind == 0 ==> m == 0xaaaa_aaaa_aaaa_aaaau64) && 
      (ind == 1 ==> m == 0xcccc_cccc_cccc_ccccu64) && 
      (ind == 2 ==> m == 0xf0f0_f0f0_f0f0_f0f0u64) && 
      (ind == 3 ==> m == 0xff00_ff00_ff00_ff00u64) && 
      (ind == 4 ==> m == 0xffff_0000_ffff_0000u64) && 
      (ind == 5 ==> m == 0xffff_ffff_0000_0000u64));
    assert(ind <= 5 && k < 64 && 
      (ind == 0 ==> m == 0xaaaa_aaaa_aaaa_aaaau64) && 
      (ind == 1 ==> m == 0xcccc_cccc_cccc_ccccu64) && 
      (ind == 2 ==> m == 0xf0f0_f0f0_f0f0_f0f0u64) && 
      (ind == 3 ==> m == 0xff00_ff00_ff00_ff00u64) && 
      (ind == 4 ==> m == 0xffff_0000_ffff_0000u64) && 
      (ind == 5 ==> m == 0xffff_ffff_0000_0000u64)
      ==> 
      (((((t & m) >> (1u64 << ind)) + ((t & !m) << (1u64 << ind))) as u64) >> k) & 1 == (t >> (k ^ (1u64 << ind))) & 1) by (bit_vector);
}
}
fn main() {}
