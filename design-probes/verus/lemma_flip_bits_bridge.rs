#![feature(panic_internals)]
#![feature(sized_hierarchy)]
use vstd::prelude::*;
use vstd::std_specs::iter::IteratorSpec;
verus! {
global size_of usize == 8;

#[verifier::external_type_specification]
pub struct ExAssertKind(core::panicking::AssertKind);

pub assume_specification<T, U> [core::panicking::assert_failed] (_0: core::panicking::AssertKind, _1: &T, _2: &U, _3: std::option::Option<std::fmt::Arguments<'_>>) -> !
          where
          T: std::marker::MetaSized + std::fmt::Debug + ?Sized,
          U: std::marker::MetaSized + std::fmt::Debug + ?Sized,
   requires false;

pub assume_specification<'a, T> [<&'a mut [T] as core::iter::IntoIterator>::into_iter] (s: &'a mut [T]) -> (r: core::slice::IterMut<'a, T>)
  ensures
    r.obeys_prophetic_iter_laws(), r.decrease() is Some, r.will_return_none(),
    r.remaining().len() == old(s)@.len(),
    final(s)@.len() == old(s)@.len(),
    forall|i: int| 0 <= i < old(s)@.len() ==> *(#[trigger] r.remaining()[i]) == old(s)@[i],
    forall|i: int| #![trigger r.remaining()[i]] #![trigger final(s)@[i]] 0 <= i < old(s)@.len() ==> *final(r.remaining()[i]) == final(s)@[i],
;

pub assume_specification<T> [<[T]>::swap] (s: &mut [T], a: usize, b: usize)
    requires a < old(s)@.len(), b < old(s)@.len(),
    ensures final(s)@ == old(s)@.update(a as int, old(s)@[b as int]).update(b as int, old(s)@[a as int]);

// ---------- spec vocabulary
pub open spec fn tsize(n: usize) -> usize { if n <= 6 { 1usize } else { 1usize << ((n - 6) as usize) } }

pub open spec fn vm(ind: usize) -> u64 {
    if ind == 0 { 0xaaaa_aaaa_aaaa_aaaau64 }
    else if ind == 1 { 0xcccc_cccc_cccc_ccccu64 }
    else if ind == 2 { 0xf0f0_f0f0_f0f0_f0f0u64 }
    else if ind == 3 { 0xff00_ff00_ff00_ff00u64 }
    else if ind == 4 { 0xffff_0000_ffff_0000u64 }
    else { 0xffff_ffff_0000_0000u64 }
}
pub open spec fn sh(ind: usize) -> i32 {
    if ind == 0 { 1i32 } else if ind == 1 { 2i32 } else if ind == 2 { 4i32 } else if ind == 3 { 8i32 } else if ind == 4 { 16i32 } else { 32i32 }
}
pub open spec fn flipw(t: u64, ind: usize) -> u64 {
    (((t & vm(ind)) >> (sh(ind) as u64)) | ((t & !vm(ind)) << (sh(ind) as u64)))
}
proof fn lemma_stride(i: usize, e: usize, ne: usize)
    requires e < ne < 58, i < (1usize << ne)
    ensures
        i & (1usize << e) == 0 ==> i + (1usize << e) < (1usize << ne) && add(i, (1usize << e)) == i ^ (1usize << e) && (i & !(1usize << e)) == i,
        i & (1usize << e) != 0 ==> (i & !(1usize << e)) < i,
        (i ^ (1usize << e)) < (1usize << ne),
{
    assert(e < ne && ne < 58 && i < (1usize << ne) ==> (
        (i & (1usize << e) == 0 ==> i <= sub(usize::MAX, (1usize << e)) && add(i, (1usize << e)) < (1usize << ne) && add(i, (1usize << e)) == i ^ (1usize << e) && (i & !(1usize << e)) == i)
        && (i & (1usize << e) != 0 ==> (i & !(1usize << e)) < i)
        && (i ^ (1usize << e)) < (1usize << ne))) by (bit_vector);
}
proof fn lemma_stride2(w: usize, i: usize, e: usize, ne: usize)
    requires e < ne < 58, w < (1usize << ne), i <= (1usize << ne)
    ensures
        (w ^ (1usize << e)) < (1usize << ne),
        ((w ^ (1usize << e)) & !(1usize << e)) == (w & !(1usize << e)),
        (w & !(1usize << e)) <= w,
        (w & !(1usize << e)) == w || (w & !(1usize << e)) == (w ^ (1usize << e)),
        (w & !(1usize << e)) < (1usize << ne),
        ((w ^ (1usize << e)) ^ (1usize << e)) == w,
        (w ^ (1usize << e)) != w,
{
    assert(e < ne && ne < 58 && w < (1usize << ne) ==> (
        (w ^ (1usize << e)) < (1usize << ne)
        && ((w ^ (1usize << e)) & !(1usize << e)) == (w & !(1usize << e))
        && (w & !(1usize << e)) <= w
        && ((w & !(1usize << e)) == w || (w & !(1usize << e)) == (w ^ (1usize << e)))
        && (w & !(1usize << e)) < (1usize << ne)
        && ((w ^ (1usize << e)) ^ (1usize << e)) == w
        && (w ^ (1usize << e)) != w)) by (bit_vector);
}
proof fn lemma_sh(ind: usize)
    requires ind <= 5
    ensures (1i32 << ind) == sh(ind)
{
    assert((1i32 << 0usize) == 1i32) by (bit_vector);
    assert((1i32 << 1usize) == 2i32) by (bit_vector);
    assert((1i32 << 2usize) == 4i32) by (bit_vector);
    assert((1i32 << 3usize) == 8i32) by (bit_vector);
    assert((1i32 << 4usize) == 16i32) by (bit_vector);
    assert((1i32 << 5usize) == 32i32) by (bit_vector);
}
proof fn lemma_flip_nocarry(t: u64, ind: usize)
    requires ind <= 5
    ensures
        ((t & vm(ind)) >> (sh(ind) as u64)) + ((t & !vm(ind)) << (sh(ind) as u64)) == flipw(t, ind),
        ((t & vm(ind)) >> (sh(ind) as u64)) + ((t & !vm(ind)) << (sh(ind) as u64)) <= u64::MAX,
{
    let m = vm(ind); let s = sh(ind) as u64;
    assert(
      ((ind == 0 && m == 0xaaaa_aaaa_aaaa_aaaau64 && s == 1) ||
       (ind == 1 && m == 0xcccc_cccc_cccc_ccccu64 && s == 2) ||
       (ind == 2 && m == 0xf0f0_f0f0_f0f0_f0f0u64 && s == 4) ||
       (ind == 3 && m == 0xff00_ff00_ff00_ff00u64 && s == 8) ||
       (ind == 4 && m == 0xffff_0000_ffff_0000u64 && s == 16) ||
       (ind == 5 && m == 0xffff_ffff_0000_0000u64 && s == 32)));
    assert(
      ((m == 0xaaaa_aaaa_aaaa_aaaau64 && s == 1) ||
       (m == 0xcccc_cccc_cccc_ccccu64 && s == 2) ||
       (m == 0xf0f0_f0f0_f0f0_f0f0u64 && s == 4) ||
       (m == 0xff00_ff00_ff00_ff00u64 && s == 8) ||
       (m == 0xffff_0000_ffff_0000u64 && s == 16) ||
       (m == 0xffff_ffff_0000_0000u64 && s == 32)) ==>
       (((t & m) >> s) & ((t & !m) << s)) == 0u64) by (bit_vector);
    let a = (t & m) >> s; let b = (t & !m) << s;
    assert(a & b == 0u64 ==> a <= sub(u64::MAX, b) && add(a, b) == a | b) by (bit_vector);
}


pub open spec fn bitu(t: Seq<u64>, m: usize) -> bool { ((t[(m >> 6) as int] >> ((m & 63) as u64)) & 1) == 1 }

// assignment-level statement of flip from the word-level contract
pub proof fn lemma_flip_bits(n: usize, old_t: Seq<u64>, new_t: Seq<u64>, ind: usize, m: usize)
    requires n < 64, ind < n, old_t.len() == tsize(n), new_t.len() == old_t.len(), m < (1usize << n),
        ind <= 5 ==> forall|w: int| 0 <= w < old_t.len() ==> #[trigger] new_t[w] == flipw(old_t[w], ind),
        ind >= 6 ==> forall|w: int| 0 <= w < old_t.len() ==> #[trigger] new_t[w] == old_t[((w as usize) ^ (1usize << ((ind - 6) as usize))) as int],
    ensures bitu(new_t, m) == bitu(old_t, (m ^ (1usize << ind)) as usize), (m ^ (1usize << ind)) < (1usize << n),
{
    let w = m >> 6; let k = (m & 63) as u64;
    let e = if n > 6 { (n - 6) as usize } else { 0usize };
    // index facts
    assert(n < 64 && ind < n && m < (1usize << n) && e == (if n > 6 { (n - 6) as usize } else { 0usize }) ==> (
        (m >> 6) < (if n <= 6 { 1usize } else { 1usize << e })
        && (m ^ (1usize << ind)) < (1usize << n)
        && (ind <= 5 ==> ((m ^ (1usize << ind)) >> 6) == (m >> 6) && ((m ^ (1usize << ind)) & 63) == ((m & 63) ^ (1usize << ind)))
        && (ind >= 6 ==> ((m ^ (1usize << ind)) >> 6) == ((m >> 6) ^ (1usize << ((ind - 6) as usize))) && ((m ^ (1usize << ind)) & 63) == (m & 63))
        && (m & 63) < 64
    )) by (bit_vector);
    assert(new_t[w as int] == new_t[w as int]);
    if ind <= 5 {
        let t = old_t[w as int];
        assert(new_t[w as int] == flipw(t, ind));
        lemma_flipw_bit(t, ind, k);
    } else {
        assert(new_t[w as int] == old_t[((w as usize) ^ (1usize << ((ind - 6) as usize))) as int]);
    }
}

proof fn lemma_flipw_bit(t: u64, ind: usize, k: u64)
    requires ind <= 5, k < 64
    ensures (flipw(t, ind) >> k) & 1 == (t >> (k ^ (1u64 << (ind as u64)))) & 1
{
    let m = vm(ind); let s = sh(ind) as u64; let iu = ind as u64;
    assert(k < 64 && (
       (iu == 0 && m == 0xaaaa_aaaa_aaaa_aaaau64 && s == 1) ||
       (iu == 1 && m == 0xcccc_cccc_cccc_ccccu64 && s == 2) ||
       (iu == 2 && m == 0xf0f0_f0f0_f0f0_f0f0u64 && s == 4) ||
       (iu == 3 && m == 0xff00_ff00_ff00_ff00u64 && s == 8) ||
       (iu == 4 && m == 0xffff_0000_ffff_0000u64 && s == 16) ||
       (iu == 5 && m == 0xffff_ffff_0000_0000u64 && s == 32)) ==>
       ((((t & m) >> s) | ((t & !m) << s)) >> k) & 1 == (t >> (k ^ (1u64 << iu))) & 1) by (bit_vector);
}
}
fn main() {}
