#![feature(panic_internals)]
#![feature(sized_hierarchy)]
use vstd::prelude::*;
use vstd::std_specs::iter::IteratorSpec;
use vstd::std_specs::cmp::*;
use vstd::std_specs::cmp::*;
verus! {
global size_of usize == 8;

#[verifier::external_type_specification]
pub struct ExAssertKind(core::panicking::AssertKind);

pub assume_specification<T, U> [core::panicking::assert_failed] (_0: core::panicking::AssertKind, _1: &T, _2: &U, _3: std::option::Option<std::fmt::Arguments<'_>>) -> !
          where
          T: std::marker::MetaSized + std::fmt::Debug + ?Sized,
          U: std::marker::MetaSized + std::fmt::Debug + ?Sized,
   requires false;

pub assume_specification<'a, T> [<&'a mut [T] as core::iter::IntoIterator>::into_iter] (s: &'a mut [T]) -> (r: core::slice::IterMut<'a, T>)
  ensures
    r.obeys_prophetic_iter_laws(), r.decrease() is Some, r.will_return_none(),
    r.remaining().len() == old(s)@.len(),
    final(s)@.len() == old(s)@.len(),
    forall|i: int| 0 <= i < old(s)@.len() ==> *(#[trigger] r.remaining()[i]) == old(s)@[i],
    forall|i: int| #![trigger r.remaining()[i]] #![trigger final(s)@[i]] 0 <= i < old(s)@.len() ==> *final(r.remaining()[i]) == final(s)@[i],
;

pub assume_specification<T> [<[T]>::swap] (s: &mut [T], a: usize, b: usize)
    requires a < old(s)@.len(), b < old(s)@.len(),
    ensures final(s)@ == old(s)@.update(a as int, old(s)@[b as int]).update(b as int, old(s)@[a as int]);

// ---------- spec vocabulary
pub open spec fn tsize(n: usize) -> usize { if n <= 6 { 1usize } else { 1usize << ((n - 6) as usize) } }

pub open spec fn vm(ind: usize) -> u64 {
    if ind == 0 { 0xaaaa_aaaa_aaaa_aaaau64 }
    else if ind == 1 { 0xcccc_cccc_cccc_ccccu64 }
    else if ind == 2 { 0xf0f0_f0f0_f0f0_f0f0u64 }
    else if ind == 3 { 0xff00_ff00_ff00_ff00u64 }
    else if ind == 4 { 0xffff_0000_ffff_0000u64 }
    else { 0xffff_ffff_0000_0000u64 }
}
pub open spec fn sh(ind: usize) -> i32 {
    if ind == 0 { 1i32 } else if ind == 1 { 2i32 } else if ind == 2 { 4i32 } else if ind == 3 { 8i32 } else if ind == 4 { 16i32 } else { 32i32 }
}
pub open spec fn flipw(t: u64, ind: usize) -> u64 {
    (((t & vm(ind)) >> (sh(ind) as u64)) | ((t & !vm(ind)) << (sh(ind) as u64)))
}
proof fn lemma_stride(i: usize, e: usize, ne: usize)
    requires e < ne < 58, i < (1usize << ne)
    ensures
        i & (1usize << e) == 0 ==> i + (1usize << e) < (1usize << ne) && add(i, (1usize << e)) == i ^ (1usize << e) && (i & !(1usize << e)) == i,
        i & (1usize << e) != 0 ==> (i & !(1usize << e)) < i,
        (i ^ (1usize << e)) < (1usize << ne),
{
    assert(e < ne && ne < 58 && i < (1usize << ne) ==> (
        (i & (1usize << e) == 0 ==> i <= sub(usize::MAX, (1usize << e)) && add(i, (1usize << e)) < (1usize << ne) && add(i, (1usize << e)) == i ^ (1usize << e) && (i & !(1usize << e)) == i)
        && (i & (1usize << e) != 0 ==> (i & !(1usize << e)) < i)
        && (i ^ (1usize << e)) < (1usize << ne))) by (bit_vector);
}
proof fn lemma_stride2(w: usize, i: usize, e: usize, ne: usize)
    requires e < ne < 58, w < (1usize << ne), i <= (1usize << ne)
    ensures
        (w ^ (1usize << e)) < (1usize << ne),
        ((w ^ (1usize << e)) & !(1usize << e)) == (w & !(1usize << e)),
        (w & !(1usize << e)) <= w,
        (w & !(1usize << e)) == w || (w & !(1usize << e)) == (w ^ (1usize << e)),
        (w & !(1usize << e)) < (1usize << ne),
        ((w ^ (1usize << e)) ^ (1usize << e)) == w,
        (w ^ (1usize << e)) != w,
{
    assert(e < ne && ne < 58 && w < (1usize << ne) ==> (
        (w ^ (1usize << e)) < (1usize << ne)
        && ((w ^ (1usize << e)) & !(1usize << e)) == (w & !(1usize << e))
        && (w & !(1usize << e)) <= w
        && ((w & !(1usize << e)) == w || (w & !(1usize << e)) == (w ^ (1usize << e)))
        && (w & !(1usize << e)) < (1usize << ne)
        && ((w ^ (1usize << e)) ^ (1usize << e)) == w
        && (w ^ (1usize << e)) != w)) by (bit_vector);
}
proof fn lemma_sh(ind: usize)
    requires ind <= 5
    ensures (1i32 << ind) == sh(ind)
{
    assert((1i32 << 0usize) == 1i32) by (bit_vector);
    assert((1i32 << 1usize) == 2i32) by (bit_vector);
    assert((1i32 << 2usize) == 4i32) by (bit_vector);
    assert((1i32 << 3usize) == 8i32) by (bit_vector);
    assert((1i32 << 4usize) == 16i32) by (bit_vector);
    assert((1i32 << 5usize) == 32i32) by (bit_vector);
}
proof fn lemma_flip_nocarry(t: u64, ind: usize)
    requires ind <= 5
    ensures
        ((t & vm(ind)) >> (sh(ind) as u64)) + ((t & !vm(ind)) << (sh(ind) as u64)) == flipw(t, ind),
        ((t & vm(ind)) >> (sh(ind) as u64)) + ((t & !vm(ind)) << (sh(ind) as u64)) <= u64::MAX,
{
    let m = vm(ind); let s = sh(ind) as u64;
    assert(
      ((ind == 0 && m == 0xaaaa_aaaa_aaaa_aaaau64 && s == 1) ||
       (ind == 1 && m == 0xcccc_cccc_cccc_ccccu64 && s == 2) ||
       (ind == 2 && m == 0xf0f0_f0f0_f0f0_f0f0u64 && s == 4) ||
       (ind == 3 && m == 0xff00_ff00_ff00_ff00u64 && s == 8) ||
       (ind == 4 && m == 0xffff_0000_ffff_0000u64 && s == 16) ||
       (ind == 5 && m == 0xffff_ffff_0000_0000u64 && s == 32)));
    assert(
      ((m == 0xaaaa_aaaa_aaaa_aaaau64 && s == 1) ||
       (m == 0xcccc_cccc_cccc_ccccu64 && s == 2) ||
       (m == 0xf0f0_f0f0_f0f0_f0f0u64 && s == 4) ||
       (m == 0xff00_ff00_ff00_ff00u64 && s == 8) ||
       (m == 0xffff_0000_ffff_0000u64 && s == 16) ||
       (m == 0xffff_ffff_0000_0000u64 && s == 32)) ==>
       (((t & m) >> s) & ((t & !m) << s)) == 0u64) by (bit_vector);
    let a = (t & m) >> s; let b = (t & !m) << s;
    assert(a & b == 0u64 ==> a <= sub(u64::MAX, b) && add(a, b) == a | b) by (bit_vector);
}

// ---------- extracted verbatim
pub const VAR_MASK: [u64; 6] = [
    0xaaaa_aaaa_aaaa_aaaa,
    0xcccc_cccc_cccc_cccc,
    0xf0f0_f0f0_f0f0_f0f0,
    0xff00_ff00_ff00_ff00,
    0xffff_0000_ffff_0000,
    0xffff_ffff_0000_0000,
];

#[verifier::when_used_as_spec(tsize)]
pub const fn table_size(num_vars: usize) -> (r: usize)
    requires num_vars < 64
    ensures r == tsize(num_vars)
{
    let v = if num_vars > 6 { num_vars } else { 6 };
    assert((1usize << 0usize) == 1usize) by (bit_vector);
    1 << (v - 6)
}

proof fn lemma_stride3(w: usize, e: usize, ne: usize)
    requires e < ne < 58, w < (1usize << ne)
    ensures ({
        let s = 1usize << e;
        &&& (w | s) < (1usize << ne)
        &&& ((w & !s) | s) == (w | s)
        &&& (w & s) == 0 ==> (w | s) == (w ^ s) && (w & !s) == w
        &&& (w & s) != 0 ==> (w | s) == w && (w & !s) == (w ^ s)
        &&& ((w & !s) & s) == 0
        &&& ((w & !s) | s) & !s == (w & !s)
    })
{
    let s = 1usize << e; let top = 1usize << ne;
    assert(e < ne && ne < 58 && w < top && s == 1usize << e && top == 1usize << ne ==> (
        (w | s) < top
        && ((w & !s) | s) == (w | s)
        && ((w & s) == 0 ==> (w | s) == (w ^ s) && (w & !s) == w)
        && ((w & s) != 0 ==> (w | s) == w && (w & !s) == (w ^ s))
        && ((w & !s) & s) == 0
        && (((w & !s) | s) & !s) == (w & !s)
    )) by (bit_vector);
}


pub assume_specification<T: core::cmp::Ord> [core::cmp::min] (a: T, b: T) -> (r: T)
    ensures T::obeys_cmp_spec() ==> r == (if a.cmp_spec(&b) == core::cmp::Ordering::Greater { b } else { a });
pub const NUM_VARS_MASK: [u64; 7] = [
    0x0000_0000_0000_0001,
    0x0000_0000_0000_0003,
    0x0000_0000_0000_000f,
    0x0000_0000_0000_00ff,
    0x0000_0000_0000_ffff,
    0x0000_0000_ffff_ffff,
    0xffff_ffff_ffff_ffff,
];
pub open spec fn nmask(n: usize) -> u64 {
    if n == 0 { 0x1u64 } else if n == 1 { 0x3u64 } else if n == 2 { 0xfu64 } else if n == 3 { 0xffu64 }
    else if n == 4 { 0xffffu64 } else if n == 5 { 0xffff_ffffu64 } else { 0xffff_ffff_ffff_ffffu64 }
}
pub fn num_vars_mask(num_vars: usize) -> (r: u64)
    ensures r == nmask(num_vars)
{
    NUM_VARS_MASK[std::cmp::min(num_vars, 6)]
}
pub open spec fn wf(n: usize, t: Seq<u64>) -> bool { t.len() == tsize(n) && (n < 6 ==> (t[0] & !nmask(n)) == 0) }


proof fn lemma_mask_wf(x: u64, n: usize)
    ensures ((nmask(n) & x) & !nmask(n)) == 0, (nmask(n) & !nmask(n)) == 0
{
    let m = nmask(n);
    assert(((m & x) & !m) == 0 && (m & !m) == 0) by (bit_vector);
}
proof fn lemma_zero_wf(n: usize)
    ensures (0u64 & !nmask(n)) == 0
{
    let m = nmask(n);
    assert((0u64 & !m) == 0) by (bit_vector);
}
proof fn lemma_tsize_pos(n: usize)
    requires n < 64
    ensures tsize(n) >= 1
{
    let e = (n - 6) as usize;
    assert(n > 6 && n < 64 && e == n - 6 ==> (1usize << e) >= 1) by (bit_vector);
}
pub fn fill_one(num_vars: usize, table: &mut [u64])
    requires num_vars < 64, old(table)@.len() == tsize(num_vars),
    ensures final(table)@.len() == old(table)@.len(), forall|w: int| 0 <= w < old(table)@.len() ==> #[trigger] final(table)@[w] == nmask(num_vars),
        wf(num_vars, final(table)@),
{
    debug_assert_eq!(table.len(), table_size(num_vars));
    let mask = num_vars_mask(num_vars);
    let ghost g0 = table@;
    for t in it: table
        invariant
            it.seq().len() == g0.len(), mask == nmask(num_vars),
            forall|q: int| #![trigger it.seq()[q]] #![trigger final(table)@[q]] 0 <= q < g0.len() ==> *final(it.seq()[q]) == final(table)@[q],
            forall|q: int| 0 <= q < it.index@ ==> *final(#[trigger] it.seq()[q]) == nmask(num_vars),
    {
        *t = mask;
    }
    proof { lemma_tsize_pos(num_vars); lemma_mask_wf(0, num_vars); lemma_mask_wf(!g0[0], num_vars); lemma_zero_wf(num_vars); }
}
pub fn fill_zero(num_vars: usize, table: &mut [u64])
    requires num_vars < 64, old(table)@.len() == tsize(num_vars),
    ensures final(table)@.len() == old(table)@.len(), forall|w: int| 0 <= w < old(table)@.len() ==> #[trigger] final(table)@[w] == 0,
        wf(num_vars, final(table)@),
{
    debug_assert_eq!(table.len(), table_size(num_vars));
    let ghost g0 = table@;
    for t in it: table
        invariant
            it.seq().len() == g0.len(),
            forall|q: int| #![trigger it.seq()[q]] #![trigger final(table)@[q]] 0 <= q < g0.len() ==> *final(it.seq()[q]) == final(table)@[q],
            forall|q: int| 0 <= q < it.index@ ==> *final(#[trigger] it.seq()[q]) == 0,
    {
        *t = 0u64;
    }
    proof { lemma_tsize_pos(num_vars); lemma_mask_wf(0, num_vars); lemma_mask_wf(!g0[0], num_vars); lemma_zero_wf(num_vars); }
}
pub fn not_inplace(num_vars: usize, table: &mut [u64])
    requires num_vars < 64, old(table)@.len() == tsize(num_vars),
    ensures final(table)@.len() == old(table)@.len(), forall|w: int| 0 <= w < old(table)@.len() ==> #[trigger] final(table)@[w] == nmask(num_vars) & !old(table)@[w],
        wf(num_vars, final(table)@),
{
    let mask = num_vars_mask(num_vars);
    let ghost g0 = table@;
    for t in it: table
        invariant
            it.seq().len() == g0.len(), mask == nmask(num_vars),
            forall|q: int| 0 <= q < g0.len() ==> *(#[trigger] it.seq()[q]) == g0[q],
            forall|q: int| #![trigger it.seq()[q]] #![trigger final(table)@[q]] 0 <= q < g0.len() ==> *final(it.seq()[q]) == final(table)@[q],
            forall|q: int| 0 <= q < it.index@ ==> *final(#[trigger] it.seq()[q]) == nmask(num_vars) & !g0[q],
    {
        *t = mask & !*t;
    }
    proof { lemma_tsize_pos(num_vars); lemma_mask_wf(0, num_vars); lemma_mask_wf(!g0[0], num_vars); lemma_zero_wf(num_vars); }
}

proof fn lemma_bit_index(n: usize, ind: usize)
    requires n < 64, ind < (1usize << n)
    ensures (ind >> 6) < tsize(n), (ind & 0x3f) < 64,
        n < 6 ==> (ind >> 6) == 0 && ((1u64 << ((ind & 0x3f) as u64)) & !nmask(n)) == 0,
{
    let e = if n > 6 { (n - 6) as usize } else { 0usize };
    assert(n < 64 && ind < (1usize << n) && e == (if n > 6 { (n - 6) as usize } else { 0usize }) ==>
        (ind >> 6) < (if n <= 6 { 1usize } else { 1usize << e }) && (ind & 0x3f) < 64 && (n < 6 ==> (ind >> 6) == 0)) by (bit_vector);
    if n < 6 {
        let m = nmask(n); let k = (ind & 0x3f) as u64;
        assert(n < 6 && ind < (1usize << n) ==> (ind & 0x3f) == ind && ind < 32) by (bit_vector);
        assert(((n == 0 && m == 0x1u64 && k < 1) || (n == 1 && m == 0x3u64 && k < 2) || (n == 2 && m == 0xfu64 && k < 4)
             || (n == 3 && m == 0xffu64 && k < 8) || (n == 4 && m == 0xffffu64 && k < 16) || (n == 5 && m == 0xffff_ffffu64 && k < 32))
            ==> ((1u64 << k) & !m) == 0) by (bit_vector);
        assert(n == 0 ==> ind < 1) by { assert((1usize << 0usize) == 1) by (bit_vector); }
        assert(n == 1 ==> ind < 2) by { assert((1usize << 1usize) == 2) by (bit_vector); }
        assert(n == 2 ==> ind < 4) by { assert((1usize << 2usize) == 4) by (bit_vector); }
        assert(n == 3 ==> ind < 8) by { assert((1usize << 3usize) == 8) by (bit_vector); }
        assert(n == 4 ==> ind < 16) by { assert((1usize << 4usize) == 16) by (bit_vector); }
        assert(n == 5 ==> ind < 32) by { assert((1usize << 5usize) == 32) by (bit_vector); }
    }
}

/// Get a single bit in a LUT from a mask
pub fn get_bit(num_vars: usize, table: &[u64], ind: usize) -> (r: bool)
    requires num_vars < 64, table@.len() == tsize(num_vars), ind < (1usize << num_vars),
    ensures r == ((table@[(ind >> 6) as int] & (1u64 << ((ind & 0x3f) as u64))) != 0),
{
    proof { lemma_bit_index(num_vars, ind); }
    debug_assert!(ind < 1 << num_vars);
    (table[ind >> 6] & (1 << (ind & 0x3f))) != 0
}

/// Set a single bit in a LUT from a mask
pub fn set_bit(num_vars: usize, table: &mut [u64], ind: usize)
    requires num_vars < 64, wf(num_vars, old(table)@), ind < (1usize << num_vars),
    ensures final(table)@ =~= old(table)@.update((ind >> 6) as int, old(table)@[(ind >> 6) as int] | (1u64 << ((ind & 0x3f) as u64))),
        wf(num_vars, final(table)@),
{
    proof {
        lemma_bit_index(num_vars, ind);
        let x = table@[(ind >> 6) as int]; let b = 1u64 << ((ind & 0x3f) as u64); let m = nmask(num_vars);
        assert((x & !m) == 0 && (b & !m) == 0 ==> ((x | b) & !m) == 0) by (bit_vector);
    }
    debug_assert!(ind < 1 << num_vars);
    table[ind >> 6] |= 1 << (ind & 0x3f);
}

/// Unset a single bit in a LUT from a mask
pub fn unset_bit(num_vars: usize, table: &mut [u64], ind: usize)
    requires num_vars < 64, wf(num_vars, old(table)@), ind < (1usize << num_vars),
    ensures final(table)@ =~= old(table)@.update((ind >> 6) as int, old(table)@[(ind >> 6) as int] & !(1u64 << ((ind & 0x3f) as u64))),
        wf(num_vars, final(table)@),
{
    proof {
        lemma_bit_index(num_vars, ind);
        let x = table@[(ind >> 6) as int]; let b = 1u64 << ((ind & 0x3f) as u64); let m = nmask(num_vars);
        assert((x & !m) == 0 ==> ((x & !b) & !m) == 0) by (bit_vector);
    }
    debug_assert!(ind < 1 << num_vars);
    table[ind >> 6] &= !(1 << (ind & 0x3f));
}

// C19: the generator call is replaced by its weakest contract (extraction rule 4)
#[verifier::external_body]
pub fn verif_rng_next_u64() -> u64 { unimplemented!() }

pub fn fill_random(num_vars: usize, table: &mut [u64])
    requires num_vars < 64, old(table)@.len() == tsize(num_vars),
    ensures wf(num_vars, final(table)@),
{
    let ghost g0 = table@;
    for t in it: table
        invariant
            it.seq().len() == g0.len(), num_vars < 64,
            forall|q: int| #![trigger it.seq()[q]] #![trigger final(table)@[q]] 0 <= q < g0.len() ==> *final(it.seq()[q]) == final(table)@[q],
            forall|q: int| 0 <= q < it.index@ ==> (*final(#[trigger] it.seq()[q]) & !nmask(num_vars)) == 0,
    {
        let ghost r0 = 0u64;
        *t = verif_rng_next_u64() & num_vars_mask(num_vars);
        proof { let x = *t; let m = nmask(num_vars); assert(forall|y: u64| #[trigger] ((y & m) & !m) == 0) by (bit_vector); }
    }
    proof { lemma_tsize_pos(num_vars); }
}
}
fn main() {}
