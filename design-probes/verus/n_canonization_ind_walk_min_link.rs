#![feature(panic_internals)]
#![feature(sized_hierarchy)]
use vstd::prelude::*;
use vstd::std_specs::iter::IteratorSpec;
verus! {
global size_of usize == 8;

pub assume_specification<T: Clone> [<[T]>::clone_from_slice] (dst: &mut [T], src: &[T])
    requires old(dst)@.len() == src@.len(),
    ensures final(dst)@ == src@;
pub assume_specification [core::cmp::Ordering::is_lt] (o: core::cmp::Ordering) -> (r: bool)
    ensures r == (o == core::cmp::Ordering::Less);

pub uninterp spec fn swap_adj_spec(n: usize, t: Seq<u64>, i: usize) -> Seq<u64>;
pub uninterp spec fn flip_spec(n: usize, t: Seq<u64>, i: usize) -> Seq<u64>;
pub uninterp spec fn not_spec(n: usize, t: Seq<u64>) -> Seq<u64>;
pub uninterp spec fn tt_lt(a: Seq<u64>, b: Seq<u64>) -> bool;

#[verifier::external_body]
pub proof fn tt_lt_laws()
    ensures
        forall|a: Seq<u64>| !#[trigger] tt_lt(a, a),
        forall|a: Seq<u64>, b: Seq<u64>, c: Seq<u64>| #![trigger tt_lt(a, b), tt_lt(b, c)] tt_lt(a, b) && tt_lt(b, c) ==> tt_lt(a, c),
{}
#[verifier::external_body]
pub fn swap_adjacent_inplace(num_vars: usize, table: &mut [u64], ind: usize)
    ensures final(table)@ == swap_adj_spec(num_vars, old(table)@, ind), final(table)@.len() == old(table)@.len()
{ unimplemented!() }
#[verifier::external_body]
pub fn flip_inplace(num_vars: usize, table: &mut [u64], ind: usize)
    ensures final(table)@ == flip_spec(num_vars, old(table)@, ind), final(table)@.len() == old(table)@.len()
{ unimplemented!() }
#[verifier::external_body]
pub fn not_inplace(num_vars: usize, table: &mut [u64])
    ensures final(table)@ == not_spec(num_vars, old(table)@), final(table)@.len() == old(table)@.len()
{ unimplemented!() }
#[verifier::external_body]
pub fn cmp(table1: &[u64], table2: &[u64]) -> (r: core::cmp::Ordering)
    requires table1@.len() == table2@.len()
    ensures (r == core::cmp::Ordering::Less) == tt_lt(table1@, table2@)
{ unimplemented!() }


// state after the first `s` comparison points of the N-walk: point q = 2*b + c
pub open spec fn n_state(n: usize, t0: Seq<u64>, flips: Seq<u8>, s: int) -> Seq<u64>
    decreases s
{
    if s <= 0 { t0 }
    else {
        let prev = n_state(n, t0, flips, s - 1);
        let q = s - 1;
        let p1 = if q % 2 == 0 { flip_spec(n, prev, flips[q / 2] as usize) } else { prev };
        not_spec(n, p1)
    }
}
pub open spec fn no_smaller(n: usize, t0: Seq<u64>, flips: Seq<u8>, k: int, best: Seq<u64>) -> bool {
    forall|j: int| 0 <= j <= k ==> !tt_lt(#[trigger] n_state(n, t0, flips, j), best)
}

pub fn n_canonization_ind(
    num_vars: usize,
    table: &mut [u64],
    best: &mut [u64],
    all_flips: &[u8],
) -> (best_ind: usize)
    requires old(table)@.len() == old(best)@.len(), 2 * all_flips@.len() <= usize::MAX,
    ensures
        final(table)@ == n_state(num_vars, old(table)@, all_flips@, (2 * all_flips@.len()) as int),
        no_smaller(num_vars, old(table)@, all_flips@, (2 * all_flips@.len()) as int, final(best)@),
        (final(best)@ == old(table)@) || (best_ind < 2 * all_flips@.len()
            && n_state(num_vars, old(table)@, all_flips@, best_ind as int + 1) == final(best)@),
{
    best.clone_from_slice(table);
    let mut best_ind = 0;
    let mut ind = 0;
    let ghost t0 = table@;
    let ghost F = all_flips@.len() as int;
    proof { tt_lt_laws(); }
    for flip in itf: all_flips
        invariant
            F == all_flips@.len(), 2 * F <= usize::MAX,
            itf.seq().len() == F, forall|j: int| 0 <= j < F ==> *(#[trigger] itf.seq()[j]) == all_flips@[j],
            ind == 2 * itf.index@,
            table@.len() == t0.len(), best@.len() == t0.len(),
            table@ == n_state(num_vars, t0, all_flips@, ind as int),
            no_smaller(num_vars, t0, all_flips@, ind as int, best@),
            (best@ == t0) || (best_ind < ind && n_state(num_vars, t0, all_flips@, best_ind as int + 1) == best@),
    {
        let ghost b = itf.index@;
        flip_inplace(num_vars, table, *flip as usize);
        let ghost tfl = table@;
        for _ in itc: 0..2
            invariant
                F == all_flips@.len(), 2 * F <= usize::MAX, 0 <= b < F,
                itc.seq().len() == 2,
                ind == 2 * b + itc.index@,
                table@.len() == t0.len(), best@.len() == t0.len(),
                itc.index@ == 0 ==> table@ == flip_spec(num_vars, n_state(num_vars, t0, all_flips@, ind as int), all_flips@[b] as usize),
                itc.index@ > 0 ==> table@ == n_state(num_vars, t0, all_flips@, ind as int),
                no_smaller(num_vars, t0, all_flips@, ind as int, best@),
                (best@ == t0) || (best_ind < ind && n_state(num_vars, t0, all_flips@, best_ind as int + 1) == best@),
        {
            let ghost q = ind as int;
            let ghost old_best = best@;
            not_inplace(num_vars, table);
            assert(table@ == n_state(num_vars, t0, all_flips@, q + 1));
            if cmp(table, best).is_lt() {
                best_ind = ind;
                best.clone_from_slice(table);
            }
            proof {
                tt_lt_laws();
                assert forall|j: int| 0 <= j <= q + 1 implies !tt_lt(#[trigger] n_state(num_vars, t0, all_flips@, j), best@) by {
                    if j <= q { assert(!tt_lt(n_state(num_vars, t0, all_flips@, j), old_best)); }
                }
            }
            ind += 1;
        }
    }
    best_ind
}
}
fn main() {}
