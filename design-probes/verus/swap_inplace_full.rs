#![feature(panic_internals)]
#![feature(sized_hierarchy)]
use vstd::prelude::*;
use vstd::std_specs::iter::IteratorSpec;
use vstd::std_specs::cmp::*;
verus! {
global size_of usize == 8;

#[verifier::external_type_specification]
pub struct ExAssertKind(core::panicking::AssertKind);

pub assume_specification<T, U> [core::panicking::assert_failed] (_0: core::panicking::AssertKind, _1: &T, _2: &U, _3: std::option::Option<std::fmt::Arguments<'_>>) -> !
          where
          T: std::marker::MetaSized + std::fmt::Debug + ?Sized,
          U: std::marker::MetaSized + std::fmt::Debug + ?Sized,
   requires false;

pub assume_specification<'a, T> [<&'a mut [T] as core::iter::IntoIterator>::into_iter] (s: &'a mut [T]) -> (r: core::slice::IterMut<'a, T>)
  ensures
    r.obeys_prophetic_iter_laws(), r.decrease() is Some, r.will_return_none(),
    r.remaining().len() == old(s)@.len(),
    final(s)@.len() == old(s)@.len(),
    forall|i: int| 0 <= i < old(s)@.len() ==> *(#[trigger] r.remaining()[i]) == old(s)@[i],
    forall|i: int| #![trigger r.remaining()[i]] #![trigger final(s)@[i]] 0 <= i < old(s)@.len() ==> *final(r.remaining()[i]) == final(s)@[i],
;

pub assume_specification<T> [<[T]>::swap] (s: &mut [T], a: usize, b: usize)
    requires a < old(s)@.len(), b < old(s)@.len(),
    ensures final(s)@ == old(s)@.update(a as int, old(s)@[b as int]).update(b as int, old(s)@[a as int]);

// ---------- spec vocabulary
pub open spec fn tsize(n: usize) -> usize { if n <= 6 { 1usize } else { 1usize << ((n - 6) as usize) } }

pub open spec fn vm(ind: usize) -> u64 {
    if ind == 0 { 0xaaaa_aaaa_aaaa_aaaau64 }
    else if ind == 1 { 0xcccc_cccc_cccc_ccccu64 }
    else if ind == 2 { 0xf0f0_f0f0_f0f0_f0f0u64 }
    else if ind == 3 { 0xff00_ff00_ff00_ff00u64 }
    else if ind == 4 { 0xffff_0000_ffff_0000u64 }
    else { 0xffff_ffff_0000_0000u64 }
}
pub open spec fn sh(ind: usize) -> i32 {
    if ind == 0 { 1i32 } else if ind == 1 { 2i32 } else if ind == 2 { 4i32 } else if ind == 3 { 8i32 } else if ind == 4 { 16i32 } else { 32i32 }
}
pub open spec fn flipw(t: u64, ind: usize) -> u64 {
    (((t & vm(ind)) >> (sh(ind) as u64)) | ((t & !vm(ind)) << (sh(ind) as u64)))
}
proof fn lemma_stride(i: usize, e: usize, ne: usize)
    requires e < ne < 58, i < (1usize << ne)
    ensures
        i & (1usize << e) == 0 ==> i + (1usize << e) < (1usize << ne) && add(i, (1usize << e)) == i ^ (1usize << e) && (i & !(1usize << e)) == i,
        i & (1usize << e) != 0 ==> (i & !(1usize << e)) < i,
        (i ^ (1usize << e)) < (1usize << ne),
{
    assert(e < ne && ne < 58 && i < (1usize << ne) ==> (
        (i & (1usize << e) == 0 ==> i <= sub(usize::MAX, (1usize << e)) && add(i, (1usize << e)) < (1usize << ne) && add(i, (1usize << e)) == i ^ (1usize << e) && (i & !(1usize << e)) == i)
        && (i & (1usize << e) != 0 ==> (i & !(1usize << e)) < i)
        && (i ^ (1usize << e)) < (1usize << ne))) by (bit_vector);
}
proof fn lemma_stride2(w: usize, i: usize, e: usize, ne: usize)
    requires e < ne < 58, w < (1usize << ne), i <= (1usize << ne)
    ensures
        (w ^ (1usize << e)) < (1usize << ne),
        ((w ^ (1usize << e)) & !(1usize << e)) == (w & !(1usize << e)),
        (w & !(1usize << e)) <= w,
        (w & !(1usize << e)) == w || (w & !(1usize << e)) == (w ^ (1usize << e)),
        (w & !(1usize << e)) < (1usize << ne),
        ((w ^ (1usize << e)) ^ (1usize << e)) == w,
        (w ^ (1usize << e)) != w,
{
    assert(e < ne && ne < 58 && w < (1usize << ne) ==> (
        (w ^ (1usize << e)) < (1usize << ne)
        && ((w ^ (1usize << e)) & !(1usize << e)) == (w & !(1usize << e))
        && (w & !(1usize << e)) <= w
        && ((w & !(1usize << e)) == w || (w & !(1usize << e)) == (w ^ (1usize << e)))
        && (w & !(1usize << e)) < (1usize << ne)
        && ((w ^ (1usize << e)) ^ (1usize << e)) == w
        && (w ^ (1usize << e)) != w)) by (bit_vector);
}
proof fn lemma_sh(ind: usize)
    requires ind <= 5
    ensures (1i32 << ind) == sh(ind)
{
    assert((1i32 << 0usize) == 1i32) by (bit_vector);
    assert((1i32 << 1usize) == 2i32) by (bit_vector);
    assert((1i32 << 2usize) == 4i32) by (bit_vector);
    assert((1i32 << 3usize) == 8i32) by (bit_vector);
    assert((1i32 << 4usize) == 16i32) by (bit_vector);
    assert((1i32 << 5usize) == 32i32) by (bit_vector);
}
proof fn lemma_flip_nocarry(t: u64, ind: usize)
    requires ind <= 5
    ensures
        ((t & vm(ind)) >> (sh(ind) as u64)) + ((t & !vm(ind)) << (sh(ind) as u64)) == flipw(t, ind),
        ((t & vm(ind)) >> (sh(ind) as u64)) + ((t & !vm(ind)) << (sh(ind) as u64)) <= u64::MAX,
{
    let m = vm(ind); let s = sh(ind) as u64;
    assert(
      ((ind == 0 && m == 0xaaaa_aaaa_aaaa_aaaau64 && s == 1) ||
       (ind == 1 && m == 0xcccc_cccc_cccc_ccccu64 && s == 2) ||
       (ind == 2 && m == 0xf0f0_f0f0_f0f0_f0f0u64 && s == 4) ||
       (ind == 3 && m == 0xff00_ff00_ff00_ff00u64 && s == 8) ||
       (ind == 4 && m == 0xffff_0000_ffff_0000u64 && s == 16) ||
       (ind == 5 && m == 0xffff_ffff_0000_0000u64 && s == 32)));
    assert(
      ((m == 0xaaaa_aaaa_aaaa_aaaau64 && s == 1) ||
       (m == 0xcccc_cccc_cccc_ccccu64 && s == 2) ||
       (m == 0xf0f0_f0f0_f0f0_f0f0u64 && s == 4) ||
       (m == 0xff00_ff00_ff00_ff00u64 && s == 8) ||
       (m == 0xffff_0000_ffff_0000u64 && s == 16) ||
       (m == 0xffff_ffff_0000_0000u64 && s == 32)) ==>
       (((t & m) >> s) & ((t & !m) << s)) == 0u64) by (bit_vector);
    let a = (t & m) >> s; let b = (t & !m) << s;
    assert(a & b == 0u64 ==> a <= sub(u64::MAX, b) && add(a, b) == a | b) by (bit_vector);
}

// ---------- extracted verbatim
pub const VAR_MASK: [u64; 6] = [
    0xaaaa_aaaa_aaaa_aaaa,
    0xcccc_cccc_cccc_cccc,
    0xf0f0_f0f0_f0f0_f0f0,
    0xff00_ff00_ff00_ff00,
    0xffff_0000_ffff_0000,
    0xffff_ffff_0000_0000,
];

#[verifier::when_used_as_spec(tsize)]
pub const fn table_size(num_vars: usize) -> (r: usize)
    requires num_vars < 64
    ensures r == tsize(num_vars)
{
    let v = if num_vars > 6 { num_vars } else { 6 };
    assert((1usize << 0usize) == 1usize) by (bit_vector);
    1 << (v - 6)
}

pub open spec fn sm(i: usize, j: usize) -> u64 {
    if i == 1 && j == 0 { 0x2222222222222222u64 }
    else if i == 2 && j == 0 { 0x0a0a0a0a0a0a0a0au64 }
    else if i == 2 && j == 1 { 0x0c0c0c0c0c0c0c0cu64 }
    else if i == 3 && j == 0 { 0x00aa00aa00aa00aau64 }
    else if i == 3 && j == 1 { 0x00cc00cc00cc00ccu64 }
    else if i == 3 && j == 2 { 0x00f000f000f000f0u64 }
    else if i == 4 && j == 0 { 0x0000aaaa0000aaaau64 }
    else if i == 4 && j == 1 { 0x0000cccc0000ccccu64 }
    else if i == 4 && j == 2 { 0x0000f0f00000f0f0u64 }
    else if i == 4 && j == 3 { 0x0000ff000000ff00u64 }
    else if i == 5 && j == 0 { 0x00000000aaaaaaaau64 }
    else if i == 5 && j == 1 { 0x00000000ccccccccu64 }
    else if i == 5 && j == 2 { 0x00000000f0f0f0f0u64 }
    else if i == 5 && j == 3 { 0x00000000ff00ff00u64 }
    else if i == 5 && j == 4 { 0x00000000ffff0000u64 }
    else { 0u64 }
}
pub open spec fn swapw(t: u64, i: usize, j: usize) -> u64 {
    let sh = ((1u64 << (i as u64)) - (1u64 << (j as u64))) as u64;
    let ml = sm(i, j);
    let mr = ml << sh;
    (t & !ml & !mr) | ((t & ml) << sh) | ((t & mr) >> sh)
}
// position k of the result reads position swapbits(k,i,j) of the argument
pub open spec fn swapbits64(k: u64, i: u64, j: u64) -> u64 {
    let bi = (k >> i) & 1; let bj = (k >> j) & 1;
    (k & !(1u64 << i) & !(1u64 << j)) | (bj << i) | (bi << j)
}
proof fn lemma_swapw_bit(t: u64, i: usize, j: usize, k: u64)
    requires j < i <= 5, k < 64
    ensures (swapw(t, i, j) >> k) & 1 == (t >> swapbits64(k, i as u64, j as u64)) & 1
{
    let ml = sm(i, j);
    let iu = i as u64; let ju = j as u64;
    let sh = ((1u64 << iu) - (1u64 << ju)) as u64;
    assert(ju < iu && iu <= 5 ==> (1u64 << iu) > (1u64 << ju) && sub((1u64 << iu), (1u64 << ju)) < 64) by (bit_vector);
    assert(sh == sub((1u64 << iu), (1u64 << ju)));
    assert(k < 64 && ju < iu && iu <= 5 && sh == sub((1u64 << iu), (1u64 << ju)) && (
        (iu == 1 && ju == 0 && ml == 0x2222222222222222u64) ||
        (iu == 2 && ju == 0 && ml == 0x0a0a0a0a0a0a0a0au64) ||
        (iu == 2 && ju == 1 && ml == 0x0c0c0c0c0c0c0c0cu64) ||
        (iu == 3 && ju == 0 && ml == 0x00aa00aa00aa00aau64) ||
        (iu == 3 && ju == 1 && ml == 0x00cc00cc00cc00ccu64) ||
        (iu == 3 && ju == 2 && ml == 0x00f000f000f000f0u64) ||
        (iu == 4 && ju == 0 && ml == 0x0000aaaa0000aaaau64) ||
        (iu == 4 && ju == 1 && ml == 0x0000cccc0000ccccu64) ||
        (iu == 4 && ju == 2 && ml == 0x0000f0f00000f0f0u64) ||
        (iu == 4 && ju == 3 && ml == 0x0000ff000000ff00u64) ||
        (iu == 5 && ju == 0 && ml == 0x00000000aaaaaaaau64) ||
        (iu == 5 && ju == 1 && ml == 0x00000000ccccccccu64) ||
        (iu == 5 && ju == 2 && ml == 0x00000000f0f0f0f0u64) ||
        (iu == 5 && ju == 3 && ml == 0x00000000ff00ff00u64) ||
        (iu == 5 && ju == 4 && ml == 0x00000000ffff0000u64))
      ==> ((((t & !ml & !(ml << sh)) | ((t & ml) << sh) | ((t & (ml << sh)) >> sh)) >> k) & 1)
           == (t >> ((k & !(1u64 << iu) & !(1u64 << ju)) | (((k >> ju) & 1) << iu) | (((k >> iu) & 1) << ju))) & 1
    ) by (bit_vector);
}

pub assume_specification<T: core::cmp::Ord> [core::cmp::min] (a: T, b: T) -> (r: T)
    ensures T::obeys_cmp_spec() ==> r == (if a.cmp_spec(&b) == core::cmp::Ordering::Greater { b } else { a });
pub assume_specification<T: core::cmp::Ord> [core::cmp::max] (a: T, b: T) -> (r: T)
    ensures T::obeys_cmp_spec() ==> r == (if a.cmp_spec(&b) == core::cmp::Ordering::Greater { a } else { b });

pub open spec fn shs(i: usize, j: usize) -> i32 { (sh(i) - sh(j)) as i32 }

proof fn lemma_shs(i: usize, j: usize)
    requires j < i <= 5
    ensures ((1i32 << i) - (1i32 << j)) == shs(i, j), 0 < shs(i, j) < 32,
        (shs(i, j) as u64) == ((1u64 << (i as u64)) - (1u64 << (j as u64))) as u64,
{
    lemma_sh(i); lemma_sh(j);
    let iu = i as u64; let ju = j as u64;
    assert(ju < iu && iu <= 5 ==> (1u64 << iu) > (1u64 << ju)) by (bit_vector);
    assert((1u64 << 0u64) == 1 && (1u64 << 1u64) == 2 && (1u64 << 2u64) == 4 && (1u64 << 3u64) == 8 && (1u64 << 4u64) == 16 && (1u64 << 5u64) == 32) by (bit_vector);
}

proof fn lemma_swapw_nocarry(t: u64, i: usize, j: usize)
    requires j < i <= 5
    ensures ({
        let s = shs(i, j) as u64; let ml = sm(i, j); let mr = ml << s;
        &&& (t & !ml & !mr) + ((t & ml) << s) <= u64::MAX
        &&& (t & !ml & !mr) + ((t & ml) << s) + ((t & mr) >> s) <= u64::MAX
        &&& (t & !ml & !mr) + ((t & ml) << s) + ((t & mr) >> s) == swapw(t, i, j)
    })
{
    lemma_shs(i, j);
    let s = shs(i, j) as u64; let ml = sm(i, j); let mr = ml << s;
    let iu = i as u64; let ju = j as u64;
    let a = t & !ml & !mr; let b = (t & ml) << s; let c = (t & mr) >> s;
    assert(ju < iu && iu <= 5 && s == sub((1u64 << iu), (1u64 << ju)) && mr == ml << s && (
        (iu == 1 && ju == 0 && ml == 0x2222222222222222u64) ||
        (iu == 2 && ju == 0 && ml == 0x0a0a0a0a0a0a0a0au64) ||
        (iu == 2 && ju == 1 && ml == 0x0c0c0c0c0c0c0c0cu64) ||
        (iu == 3 && ju == 0 && ml == 0x00aa00aa00aa00aau64) ||
        (iu == 3 && ju == 1 && ml == 0x00cc00cc00cc00ccu64) ||
        (iu == 3 && ju == 2 && ml == 0x00f000f000f000f0u64) ||
        (iu == 4 && ju == 0 && ml == 0x0000aaaa0000aaaau64) ||
        (iu == 4 && ju == 1 && ml == 0x0000cccc0000ccccu64) ||
        (iu == 4 && ju == 2 && ml == 0x0000f0f00000f0f0u64) ||
        (iu == 4 && ju == 3 && ml == 0x0000ff000000ff00u64) ||
        (iu == 5 && ju == 0 && ml == 0x00000000aaaaaaaau64) ||
        (iu == 5 && ju == 1 && ml == 0x00000000ccccccccu64) ||
        (iu == 5 && ju == 2 && ml == 0x00000000f0f0f0f0u64) ||
        (iu == 5 && ju == 3 && ml == 0x00000000ff00ff00u64) ||
        (iu == 5 && ju == 4 && ml == 0x00000000ffff0000u64))
      ==> ((t & !ml & !mr) & ((t & ml) << s)) == 0u64
          && (((t & !ml & !mr) | ((t & ml) << s)) & ((t & mr) >> s)) == 0u64
    ) by (bit_vector);
    assert(a & b == 0u64 ==> a <= sub(u64::MAX, b) && add(a, b) == a | b) by (bit_vector);
    let ab = (a | b) as u64;
    assert(ab & c == 0u64 ==> ab <= sub(u64::MAX, c) && add(ab, c) == ab | c) by (bit_vector);
}

proof fn lemma_shl_ok(ml: u64, i: usize, j: usize)
    requires j < i <= 5, ml == sm(i, j)
    ensures true
{}
pub const SWAP_INPUT_MASKS: [[u64; 6]; 6] = [
    [
        0x0000000000000000,
        0x0000000000000000,
        0x0000000000000000,
        0x0000000000000000,
        0x0000000000000000,
        0x0000000000000000,
    ],
    [
        0x2222222222222222,
        0x0000000000000000,
        0x0000000000000000,
        0x0000000000000000,
        0x0000000000000000,
        0x0000000000000000,
    ],
    [
        0x0a0a0a0a0a0a0a0a,
        0x0c0c0c0c0c0c0c0c,
        0x0000000000000000,
        0x0000000000000000,
        0x0000000000000000,
        0x0000000000000000,
    ],
    [
        0x00aa00aa00aa00aa,
        0x00cc00cc00cc00cc,
        0x00f000f000f000f0,
        0x0000000000000000,
        0x0000000000000000,
        0x0000000000000000,
    ],
    [
        0x0000aaaa0000aaaa,
        0x0000cccc0000cccc,
        0x0000f0f00000f0f0,
        0x0000ff000000ff00,
        0x0000000000000000,
        0x0000000000000000,
    ],
    [
        0x00000000aaaaaaaa,
        0x00000000cccccccc,
        0x00000000f0f0f0f0,
        0x00000000ff00ff00,
        0x00000000ffff0000,
        0x0000000000000000,
    ],
];


// word index helpers for the regime where both variables are >= 6
pub open spec fn is_mixed(w: usize, mi: usize, mj: usize) -> bool { ((w & mi) == 0) != ((w & mj) == 0) }
// the smaller element of the pair {w, w ^ mi ^ mj} when w is mixed (mi bit clear, mj bit set)
pub open spec fn pair_low(w: usize, mi: usize, mj: usize) -> usize { (w & !mi) | mj }

proof fn lemma_pair(w: usize, k: usize, ei: usize, ej: usize, ne: usize)
    requires ej < ei < ne < 58, w < (1usize << ne)
    ensures ({
        let mi = 1usize << ei; let mj = 1usize << ej;
        &&& (w ^ mi ^ mj) < (1usize << ne)
        &&& is_mixed(w, mi, mj) == is_mixed((w ^ mi ^ mj) as usize, mi, mj)
        &&& is_mixed(w, mi, mj) ==> pair_low((w ^ mi ^ mj) as usize, mi, mj) == pair_low(w, mi, mj)
        &&& is_mixed(w, mi, mj) ==> (pair_low(w, mi, mj) == w || pair_low(w, mi, mj) == (w ^ mi ^ mj))
        &&& is_mixed(w, mi, mj) ==> pair_low(w, mi, mj) < (1usize << ne)
        &&& ((w ^ mi ^ mj) ^ mi ^ mj) == w
        &&& (w ^ mi ^ mj) != w
        &&& ((mi & w) == 0 && (mj & w) != 0) ==> (w >= mj && sub(w, mj) <= sub(usize::MAX, mi) && add(sub(w, mj), mi) == (w ^ mi ^ mj)
               && pair_low(w, mi, mj) == w && is_mixed(w, mi, mj) && add(sub(w, mj), mi) < (1usize << ne))
        &&& (is_mixed(w, mi, mj) && pair_low(w, mi, mj) == w) ==> ((mi & w) == 0 && (mj & w) != 0)
        &&& (mi & w) == (w & mi) && (mj & w) == (w & mj)
    })
{
    let mi = 1usize << ei; let mj = 1usize << ej; let top = 1usize << ne;
    assert(ej < ei && ei < ne && ne < 58 && w < top && mi == 1usize << ei && mj == 1usize << ej && top == 1usize << ne ==> (
        (w ^ mi ^ mj) < top
        && ((((w & mi) == 0) != ((w & mj) == 0)) == ((((w ^ mi ^ mj) & mi) == 0) != (((w ^ mi ^ mj) & mj) == 0)))
        && ((((w & mi) == 0) != ((w & mj) == 0)) ==> ((((w ^ mi ^ mj) & !mi) | mj) == ((w & !mi) | mj)))
        && ((((w & mi) == 0) != ((w & mj) == 0)) ==> (((w & !mi) | mj) == w || ((w & !mi) | mj) == (w ^ mi ^ mj)))
        && ((((w & mi) == 0) != ((w & mj) == 0)) ==> ((w & !mi) | mj) < top)
        && ((w ^ mi ^ mj) ^ mi ^ mj) == w
        && (w ^ mi ^ mj) != w
        && (((mi & w) == 0 && (mj & w) != 0) ==> (w >= mj && sub(w, mj) <= sub(usize::MAX, mi) && add(sub(w, mj), mi) == (w ^ mi ^ mj)
               && ((w & !mi) | mj) == w && (((w & mi) == 0) != ((w & mj) == 0)) && add(sub(w, mj), mi) < top))
        && (((((w & mi) == 0) != ((w & mj) == 0)) && ((w & !mi) | mj) == w) ==> ((mi & w) == 0 && (mj & w) != 0))
        && (mi & w) == (w & mi) && (mj & w) == (w & mj)
    )) by (bit_vector);
}


pub open spec fn cross_lo(t0: u64, t1: u64, j: usize) -> u64 { (t0 & !vm(j)) | ((t1 & !vm(j)) << (sh(j) as u64)) }
pub open spec fn cross_hi(t0: u64, t1: u64, j: usize) -> u64 { ((t0 & vm(j)) >> (sh(j) as u64)) | (t1 & vm(j)) }

proof fn lemma_cross_nocarry(t0: u64, t1: u64, j: usize)
    requires j <= 5
    ensures ({
        let m = vm(j); let s = sh(j) as u64;
        &&& (t0 & !m) + ((t1 & !m) << s) <= u64::MAX
        &&& (t0 & !m) + ((t1 & !m) << s) == cross_lo(t0, t1, j)
        &&& ((t0 & m) >> s) + (((t1 & m) >> s) << s) <= u64::MAX
        &&& ((t0 & m) >> s) + (((t1 & m) >> s) << s) == cross_hi(t0, t1, j)
    })
{
    let m = vm(j); let s = sh(j) as u64;
    assert(
      ((m == 0xaaaa_aaaa_aaaa_aaaau64 && s == 1) ||
       (m == 0xcccc_cccc_cccc_ccccu64 && s == 2) ||
       (m == 0xf0f0_f0f0_f0f0_f0f0u64 && s == 4) ||
       (m == 0xff00_ff00_ff00_ff00u64 && s == 8) ||
       (m == 0xffff_0000_ffff_0000u64 && s == 16) ||
       (m == 0xffff_ffff_0000_0000u64 && s == 32)) ==>
       ((t0 & !m) & ((t1 & !m) << s)) == 0u64
       && (((t0 & m) >> s) & (((t1 & m) >> s) << s)) == 0u64
       && (((t1 & m) >> s) << s) == (t1 & m)) by (bit_vector);
    let a = t0 & !m; let b = (t1 & !m) << s;
    assert(a & b == 0u64 ==> a <= sub(u64::MAX, b) && add(a, b) == a | b) by (bit_vector);
    let c = (t0 & m) >> s; let d = ((t1 & m) >> s) << s;
    assert(c & d == 0u64 ==> c <= sub(u64::MAX, d) && add(c, d) == c | d) by (bit_vector);
}

proof fn lemma_stride3(w: usize, e: usize, ne: usize)
    requires e < ne < 58, w < (1usize << ne)
    ensures ({
        let s = 1usize << e;
        &&& (w | s) < (1usize << ne)
        &&& ((w & !s) | s) == (w | s)
        &&& (w & s) == 0 ==> (w | s) == (w ^ s) && (w & !s) == w
        &&& (w & s) != 0 ==> (w | s) == w && (w & !s) == (w ^ s)
        &&& ((w & !s) & s) == 0
        &&& ((w & !s) | s) & !s == (w & !s)
    })
{
    let s = 1usize << e; let top = 1usize << ne;
    assert(e < ne && ne < 58 && w < top && s == 1usize << e && top == 1usize << ne ==> (
        (w | s) < top
        && ((w & !s) | s) == (w | s)
        && ((w & s) == 0 ==> (w | s) == (w ^ s) && (w & !s) == w)
        && ((w & s) != 0 ==> (w | s) == w && (w & !s) == (w ^ s))
        && ((w & !s) & s) == 0
        && (((w & !s) | s) & !s) == (w & !s)
    )) by (bit_vector);
}

pub fn swap_inplace(num_vars: usize, table: &mut [u64], ind1: usize, ind2: usize)
    requires num_vars < 64, ind1 < num_vars, ind2 < num_vars, old(table)@.len() == tsize(num_vars),
    ensures final(table)@.len() == old(table)@.len(),
        ind1 == ind2 ==> final(table)@ == old(table)@,
        ind1 != ind2 && ind1 <= 5 && ind2 <= 5 ==> forall|w: int| 0 <= w < old(table)@.len() ==>
            #[trigger] final(table)@[w] == swapw(old(table)@[w], if ind1 > ind2 { ind1 } else { ind2 }, if ind1 > ind2 { ind2 } else { ind1 }),
        ind1 != ind2 && (ind1 <= 5) != (ind2 <= 5) ==> forall|w: int| 0 <= w < old(table)@.len() ==>
            #[trigger] final(table)@[w] == ({
                let hi = if ind1 > ind2 { ind1 } else { ind2 }; let lo = if ind1 > ind2 { ind2 } else { ind1 };
                let mi = 1usize << ((hi - 6) as usize);
                let wu = w as usize;
                if (wu & mi) == 0 { cross_lo(old(table)@[(wu & !mi) as int], old(table)@[(wu | mi) as int], lo) }
                else { cross_hi(old(table)@[(wu & !mi) as int], old(table)@[(wu | mi) as int], lo) }
            }),
        ind1 != ind2 && ind1 >= 6 && ind2 >= 6 ==> forall|w: int| 0 <= w < old(table)@.len() ==>
            #[trigger] final(table)@[w] == (if is_mixed(w as usize, 1usize << ((ind1 - 6) as usize), 1usize << ((ind2 - 6) as usize))
                { old(table)@[((w as usize) ^ (1usize << ((ind1 - 6) as usize)) ^ (1usize << ((ind2 - 6) as usize))) as int] } else { old(table)@[w] }),
{
    debug_assert_eq!(table.len(), table_size(num_vars));
    debug_assert!(ind1 < num_vars);
    debug_assert!(ind2 < num_vars);
    if ind1 == ind2 {
        return;
    }
    let i = core::cmp::max(ind1, ind2);
    let j = core::cmp::min(ind1, ind2);
    if i <= 5 {
        proof { lemma_shs(i, j); lemma_sh(i); lemma_sh(j); }
        let shift = (1 << i) - (1 << j);
        let mask_left = SWAP_INPUT_MASKS[i][j];
        proof { lemma_shl_ok(mask_left, i, j); }
        let mask_right = mask_left << shift;
        let ghost t0 = table@;
        for t in it: table
            invariant
                it.seq().len() == t0.len(),
                j < i <= 5, shift == shs(i, j), mask_left == sm(i, j), mask_right == sm(i, j) << (shs(i, j) as u64),
                forall|q: int| 0 <= q < t0.len() ==> *(#[trigger] it.seq()[q]) == t0[q],
                forall|q: int| #![trigger it.seq()[q]] #![trigger final(table)@[q]] 0 <= q < t0.len() ==> *final(it.seq()[q]) == final(table)@[q],
                forall|q: int| 0 <= q < it.index@ ==> *final(#[trigger] it.seq()[q]) == swapw(t0[q], i, j),
        {
            proof { lemma_swapw_nocarry(*t, i, j); lemma_shs(i, j); }
            *t = (*t & !mask_left & !mask_right)
                + ((*t & mask_left) << shift)
                + ((*t & mask_right) >> shift);
        }
    } else if j <= 5 {
        let mi = 1 << (i - 6);
        let ghost g0 = table@;
        let ghost ei = (i - 6) as usize;
        let ghost ne = (num_vars - 6) as usize;
        for k in iter: 0..table.len()
            invariant
                iter.seq().len() == g0.len(), k == iter.index@,
                j <= 5, ei < ne < 58, mi == 1usize << ei,
                table@.len() == g0.len(), g0.len() == 1usize << ne,
                forall|w: int| 0 <= w < g0.len() ==> #[trigger] table@[w] ==
                    (if ((w as usize) & !mi) < k {
                        (if ((w as usize) & mi) == 0 { cross_lo(g0[((w as usize) & !mi) as int], g0[((w as usize) | mi) as int], j) }
                         else { cross_hi(g0[((w as usize) & !mi) as int], g0[((w as usize) | mi) as int], j) })
                     } else { g0[w] }),
        {
            proof { lemma_stride(k, ei, ne); lemma_stride2(k, k, ei, ne); lemma_sh(j); }
            let ghost tb = table@;
            if k & mi == 0 {
                let t0 = table[k];
                let t1 = table[k + mi];
                proof {
                    lemma_stride2((k + mi) as usize, k, ei, ne);
                    lemma_cross_nocarry(t0, t1, j);
                }
                let mask = VAR_MASK[j];
                let shift = 1 << j;
                let t00 = t0 & !mask;
                let t01 = (t0 & mask) >> shift;
                let t10 = t1 & !mask;
                let t11 = (t1 & mask) >> shift;
                table[k] = t00 + (t10 << shift);
                table[k + mi] = t01 + (t11 << shift);
            }
            proof {
                assert forall|w: int| 0 <= w < g0.len() implies #[trigger] table@[w] ==
                    (if ((w as usize) & !mi) < k + 1 {
                        (if ((w as usize) & mi) == 0 { cross_lo(g0[((w as usize) & !mi) as int], g0[((w as usize) | mi) as int], j) }
                         else { cross_hi(g0[((w as usize) & !mi) as int], g0[((w as usize) | mi) as int], j) })
                     } else { g0[w] }) by {
                    let wu = w as usize;
                    lemma_stride2(wu, k, ei, ne);
                    lemma_stride3(wu, ei, ne);
                    lemma_stride3(k, ei, ne);
                    if k & mi == 0 {
                        lemma_stride2((k + mi) as usize, k, ei, ne);
                        lemma_stride3((k + mi) as usize, ei, ne);
                        if (wu & !mi) == k {
                            assert(wu == k || wu == k + mi);
                        } else {
                            assert(wu != k && wu != k + mi);
                        }
                    } else {
                        assert((wu & !mi) != k);
                    }
                }
            }
        }
        proof {
            assert forall|w: int| 0 <= w < g0.len() implies #[trigger] table@[w] ==
                (if ((w as usize) & mi) == 0 { cross_lo(g0[((w as usize) & !mi) as int], g0[((w as usize) | mi) as int], j) }
                 else { cross_hi(g0[((w as usize) & !mi) as int], g0[((w as usize) | mi) as int], j) }) by {
                lemma_stride2(w as usize, 0, ei, ne);
                lemma_stride3(w as usize, ei, ne);
            }
        }
    } else {
        let mi = 1 << (i - 6);
        let mj = 1 << (j - 6);
        let ghost t0 = table@;
        let ghost ei = (i - 6) as usize;
        let ghost ej = (j - 6) as usize;
        let ghost ne = (num_vars - 6) as usize;
        for k in iter: 0..table.len()
            invariant
                iter.seq().len() == t0.len(), k == iter.index@,
                ej < ei < ne < 58, mi == 1usize << ei, mj == 1usize << ej,
                table@.len() == t0.len(), t0.len() == 1usize << ne,
                forall|w: int| 0 <= w < t0.len() ==> #[trigger] table@[w] ==
                    (if pair_low(w as usize, mi, mj) < k && is_mixed(w as usize, mi, mj) { t0[((w as usize) ^ mi ^ mj) as int] } else { t0[w] }),
        {
            proof { lemma_pair(k, k, ei, ej, ne); }
            let ghost tb = table@;
            if mi & k == 0 && mj & k != 0 {
                table.swap(k, k - mj + mi);
            }
            proof {
                assert forall|w: int| 0 <= w < t0.len() implies #[trigger] table@[w] ==
                    (if pair_low(w as usize, mi, mj) < k + 1 && is_mixed(w as usize, mi, mj) { t0[((w as usize) ^ mi ^ mj) as int] } else { t0[w] }) by {
                    let wu = w as usize;
                    lemma_pair(wu, k, ei, ej, ne);
                    lemma_pair(k, k, ei, ej, ne);
                    if mi & k == 0 && mj & k != 0 {
                        let kp = (k - mj + mi) as usize;
                        lemma_pair(kp, k, ei, ej, ne);
                        if is_mixed(wu, mi, mj) && pair_low(wu, mi, mj) == k {
                            assert(wu == k || wu == kp);
                        } else {
                            assert(wu != k && wu != kp);
                        }
                    } else {
                        assert(!(is_mixed(wu, mi, mj) && pair_low(wu, mi, mj) == k));
                    }
                }
            }
        }
        proof {
            assert forall|w: int| 0 <= w < t0.len() implies #[trigger] table@[w] ==
                (if is_mixed(w as usize, mi, mj) { t0[((w as usize) ^ mi ^ mj) as int] } else { t0[w] }) by {
                lemma_pair(w as usize, 0, ei, ej, ne);
            }
            assert forall|w: usize, a: usize, b: usize| (#[trigger] (w ^ a ^ b)) == (w ^ b ^ a) by {
                assert((w ^ a ^ b) == (w ^ b ^ a)) by (bit_vector);
            }
            assert forall|w: int| 0 <= w < t0.len() implies #[trigger] table@[w] ==
                (if is_mixed(w as usize, 1usize << ((ind1 - 6) as usize), 1usize << ((ind2 - 6) as usize))
                    { t0[((w as usize) ^ (1usize << ((ind1 - 6) as usize)) ^ (1usize << ((ind2 - 6) as usize))) as int] } else { t0[w] }) by {
                let wu = w as usize;
                let a = 1usize << ((ind1 - 6) as usize); let b = 1usize << ((ind2 - 6) as usize);
                assert((wu ^ a ^ b) == (wu ^ b ^ a)) by (bit_vector);
                assert(is_mixed(wu, a, b) == is_mixed(wu, b, a));
            }
        }
    }
}

}
fn main() {}
