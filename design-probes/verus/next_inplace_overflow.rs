#![feature(panic_internals)]
#![feature(sized_hierarchy)]
use vstd::prelude::*;
use vstd::std_specs::iter::IteratorSpec;
verus! {
#[verifier::external_type_specification]
pub struct ExAssertKind(core::panicking::AssertKind);

pub assume_specification<T, U> [core::panicking::assert_failed] (_0: core::panicking::AssertKind, _1: &T, _2: &U, _3: std::option::Option<std::fmt::Arguments<'_>>) -> !
          where
          T: std::marker::MetaSized + std::fmt::Debug + ?Sized,
          U: std::marker::MetaSized + std::fmt::Debug + ?Sized,
   requires false;

pub assume_specification<'a, T> [<&'a mut [T] as core::iter::IntoIterator>::into_iter] (s: &'a mut [T]) -> (r: core::slice::IterMut<'a, T>)
  ensures
    r.obeys_prophetic_iter_laws(), r.decrease() is Some, r.will_return_none(),
    r.remaining().len() == old(s)@.len(),
    final(s)@.len() == old(s)@.len(),
    forall|i: int| 0 <= i < old(s)@.len() ==> *(#[trigger] r.remaining()[i]) == old(s)@[i],
    forall|i: int| 0 <= i < old(s)@.len() ==> *final(#[trigger] r.remaining()[i]) == final(s)@[i],
;

pub open spec fn spec_table_size(n: usize) -> usize { if n > 6 { (1usize << ((n - 6) as usize)) } else { 1usize } }
#[verifier::when_used_as_spec(spec_table_size)]
pub const fn table_size(num_vars: usize) -> (r: usize)
  requires num_vars < 20
  ensures r == spec_table_size(num_vars)
{
    let v = if num_vars > 6 { num_vars } else { 6 };
    1 << (v - 6)
}

pub fn next_inplace(num_vars: usize, table: &mut [u64], mask: u64) -> bool 
   requires num_vars < 20, old(table)@.len() == spec_table_size(num_vars)
{
    debug_assert_eq!(table.len(), table_size(num_vars));
    for t in table {
        *t = (*t + 1) & mask;
        if *t != 0 {
            return true;
        }
    }
    false
}
}
fn main() {}
