// appended to src/sop/cube.rs in the overlay copy (probe)
#[cfg(kani)]
impl kani::Arbitrary for Cube {
    fn any() -> Self { Cube { pos: kani::any(), neg: kani::any() } }
}
#[cfg(kani)]
mod verif_c12 {
    use super::*;
    #[kani::proof_for_contract(Cube::and)]
    fn and_contract() {
        let a: Cube = kani::any();
        let b: Cube = kani::any();
        let _ = Cube::and(a, b);
    }
    #[kani::proof]
    #[kani::stub_verified(Cube::and)]
    fn and3() {
        let a: Cube = kani::any();
        let b: Cube = kani::any();
        let c: Cube = kani::any();
        kani::assume(Cube::cwf(&a) && Cube::cwf(&b) && Cube::cwf(&c));
        let r = Cube::and(Cube::and(a, b), c);
        assert!(Cube::cwf(&r));
    }
    #[kani::proof]
    fn implies_sem() {
        let a: Cube = kani::any();
        let b: Cube = kani::any();
        kani::assume(Cube::cwf(&a) && Cube::cwf(&b));
        let m: usize = kani::any();
        if a.implies(b) {
            assert!(!a.value(m) || b.value(m));
        } else {
            let w = (a.pos | (b.neg & !a.neg)) as usize;
            assert!(a.value(w) && !b.value(w));
        }
    }
}
