//@target src/sop/soes.rs
// C16 (probe) - Display of Ecube / Soes / Esop / Sop evaluated with the evident grammar
#[cfg(kani)]
mod verif_c16f {
    use super::*;
    use crate::sop::cube::verif_c16::{eval_text, Buf};
    use crate::sop::{Cube, Esop, Sop};
    use core::fmt::Write;

    fn ecube_display<const N: usize>() {
        let c = super::super::ecube::verif_c13::any_over(N);
        let mut w = Buf::<24> { b: [0; 24], len: 0 };
        let r = write!(w, "{}", c);
        assert!(r.is_ok());
        let m: usize = kani::any();
        kani::assume(m < (1 << N));
        let (wf, ev) = eval_text(&w.b, w.len, m);
        assert!(wf && ev == c.value(m));
        kani::cover!(w.len >= 6, "post-reached");
    }
    fn soes_display<const K: usize>(n: usize) {
        let mut terms: [Ecube; K] = [Ecube::zero(); K];
        let mut i = 0;
        while i < K {
            terms[i] = super::super::ecube::verif_c13::any_over(n);
            i += 1;
        }
        let s = Soes { num_vars: n, cubes: terms.to_vec() };
        let mut w = Buf::<48> { b: [0; 48], len: 0 };
        let r = write!(w, "{}", s);
        assert!(r.is_ok());
        let m: usize = kani::any();
        kani::assume(m < (1 << n));
        let (wf, ev) = eval_text(&w.b, w.len, m);
        assert!(wf && ev == s.value(m));
        kani::cover!(true, "post-reached");
    }
    fn any_cube_over(n: usize) -> Cube {
        let pos: u32 = kani::any();
        let neg: u32 = kani::any();
        kani::assume(pos >> n == 0 && neg >> n == 0);
        Cube::from_mask(pos, neg)
    }
    fn sop_display<const K: usize>(n: usize) {
        let mut v = Vec::new();
        let mut i = 0;
        while i < K {
            v.push(any_cube_over(n));
            i += 1;
        }
        let s = Sop::from_cubes(n, v);
        let mut w = Buf::<48> { b: [0; 48], len: 0 };
        let r = write!(w, "{}", s);
        assert!(r.is_ok());
        let m: usize = kani::any();
        kani::assume(m < (1 << n));
        let (wf, ev) = eval_text(&w.b, w.len, m);
        assert!(wf && ev == s.value(m));
        kani::cover!(true, "post-reached");
    }
    fn esop_display<const K: usize>(n: usize) {
        let mut v = Vec::new();
        let mut i = 0;
        while i < K {
            v.push(any_cube_over(n));
            i += 1;
        }
        let s = Esop::from_cubes(n, v);
        let mut w = Buf::<48> { b: [0; 48], len: 0 };
        let r = write!(w, "{}", s);
        assert!(r.is_ok());
        let m: usize = kani::any();
        kani::assume(m < (1 << n));
        let (wf, ev) = eval_text(&w.b, w.len, m);
        assert!(wf && ev == s.value(m));
        kani::cover!(true, "post-reached");
    }
    macro_rules! h {
        ($name:ident, $unw:expr, $body:expr) => {
            #[kani::proof]
            #[kani::unwind($unw)]
            fn $name() {
                $body;
            }
        };
    }
    h!(c16q_ecube_n2, 66, ecube_display::<2>());
    h!(c16q_soes_k1_n2, 66, soes_display::<1>(2));
    h!(c16q_soes_k2_n2, 66, soes_display::<2>(2));
    h!(c16q_sop_k1_n2, 66, sop_display::<1>(2));
    h!(c16q_sop_k2_n2, 66, sop_display::<2>(2));
    h!(c16q_esop_k2_n2, 66, esop_display::<2>(2));
}
