// appended to src/decomposition.rs in the overlay copy (probe)
#[cfg(kani)]
mod verif_c06 {
    use super::*;
    fn ones(n: usize) -> u64 { if n >= 6 { !0u64 } else { (1u64 << (1u64 << n)) - 1 } }
    // independent cofactor oracle: word w of c0 / c1
    fn cof(n: usize, t: &[u64], ind: usize, w: usize, one: bool) -> u64 {
        if ind >= 6 {
            let s = 1usize << (ind - 6);
            if one { t[w | s] } else { t[w & !s] }
        } else {
            let mut r = 0u64;
            let mut k = 0u32;
            while k < 64 {
                let src = if one { k | (1u32 << ind) } else { k & !(1u32 << ind) };
                r |= ((t[w] >> src) & 1) << k;
                k += 1;
            }
            r & ones(n)
        }
    }
    macro_rules! topdec {
        ($name:ident, $N:expr, $T:expr) => {
            #[kani::proof]
            #[kani::unwind(66)]
            fn $name() {
                let t: [u64; $T] = kani::any();
                if $N < 6 { kani::assume(t[0] & !ones($N) == 0); }
                let ind: usize = kani::any();
                kani::assume(ind < $N);
                let mut indep = true; let mut c0z = true; let mut c1o = true; let mut c0o = true; let mut c1z = true; let mut x = true;
                let mut pos = true; let mut neg = true;
                let mut w = 0;
                while w < $T {
                    let c0 = cof($N, &t, ind, w, false);
                    let c1 = cof($N, &t, ind, w, true);
                    let o = ones($N);
                    indep &= c0 == c1; c0z &= c0 == 0; c1o &= c1 == o; c0o &= c0 == o; c1z &= c1 == 0; x &= c0 == (!c1 & o);
                    pos &= c0 & !c1 == 0; neg &= c1 & !c0 == 0;
                    w += 1;
                }
                let expect = if indep { DecompositionType::Independent }
                    else if c0z && c1o { DecompositionType::Identity }
                    else if c0o && c1z { DecompositionType::Negation }
                    else if c0z { DecompositionType::And }
                    else if c1o { DecompositionType::Or }
                    else if c0o { DecompositionType::Le }
                    else if c1z { DecompositionType::Lt }
                    else if x { DecompositionType::Xor }
                    else { DecompositionType::None };
                assert!(top_decomposition($N, &t, ind) == expect);
                assert!(input_pos_unate($N, &t, ind) == pos);
                assert!(input_neg_unate($N, &t, ind) == neg);
                kani::cover!(true, "post-reached");
            }
        };
    }
    topdec!(topdec_n3, 3, 1);
    topdec!(topdec_n6, 6, 1);
    topdec!(topdec_n8, 8, 4);
}
