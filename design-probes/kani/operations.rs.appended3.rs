// appended to src/operations.rs in the overlay copy (probe)
#[cfg(kani)]
mod verif_c08 {
    use super::*;
    macro_rules! next_l {
        ($name:ident, $N:expr, $L:expr) => {
            #[kani::proof]
            #[kani::unwind(10)]
            fn $name() {
                let a: [u64; $L] = kani::any();
                let mask = num_vars_mask($N);
                if $N < 6 { kani::assume(a[0] & !mask == 0); }
                let mut t = a;
                let r = next_inplace($N, &mut t);
                // cut: first word that is not all ones
                let mut c = 0usize;
                while c < $L && a[c] == mask { c += 1; }
                let w: usize = kani::any();
                kani::assume(w < $L);
                if w < c { assert!(t[w] == 0); }
                else if w == c { assert!(t[w] == a[w] + 1 && t[w] != 0); }
                else { assert!(t[w] == a[w]); }
                assert!(r == (c < $L));
                kani::cover!(true, "post-reached");
            }
        };
    }
    next_l!(next_n3, 3, 1);
    next_l!(next_n8, 8, 4);
}
