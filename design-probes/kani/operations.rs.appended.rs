// appended to src/operations.rs in the overlay copy (probe)
#[cfg(kani)]
mod verif_c19 {
    use super::*;
    #[kani::proof]
    #[kani::unwind(6)]
    fn fill_random_n8() {
        const N: usize = 8;
        let seq: [u64; 4] = kani::any();
        unsafe { for i in 0..4 { rand::SEQ[i] = seq[i]; } rand::CALLS = 0; }
        let mut t: [u64; 4] = kani::any();
        fill_random(N, &mut t);
        let w: usize = kani::any();
        kani::assume(w < 4);
        assert!(t[w] == seq[w] & num_vars_mask(N));
        assert!(unsafe { rand::CALLS } == 4);
    }
}

#[cfg(kani)]
mod verif_probe {
    use super::*;
    fn bit(t: &[u64], m: usize) -> bool { (t[m >> 6] >> (m & 63)) & 1 != 0 }

    #[kani::proof]
    #[kani::unwind(66)]
    fn sym_n12() {
        const N: usize = 12;
        let mut t = [0u64; 64];
        let c: usize = kani::any();
        fill_symmetric(N, &mut t, c);
        let m: usize = kani::any();
        kani::assume(m < (1 << N));
        assert!(bit(&t, m) == ((c >> m.count_ones()) & 1 != 0));
    }

    #[kani::proof]
    #[kani::unwind(66)]
    fn equals_n7() {
        const N: usize = 7;
        let mut t = [0u64; 2];
        let k: usize = kani::any();
        fill_equals(N, &mut t, k);
        let m: usize = kani::any();
        kani::assume(m < (1 << N));
        assert!(bit(&t, m) == (m.count_ones() as usize == k));
    }

    #[kani::proof]
    #[kani::unwind(66)]
    fn cmp_l64() {
        let a: [u64; 64] = kani::any();
        let b: [u64; 64] = kani::any();
        let r = cmp(&a, &b);
        // oracle: index loop from the top
        let mut o = std::cmp::Ordering::Equal;
        let mut i = 64;
        while i > 0 {
            i -= 1;
            if o == std::cmp::Ordering::Equal {
                if a[i] < b[i] { o = std::cmp::Ordering::Less; }
                else if a[i] > b[i] { o = std::cmp::Ordering::Greater; }
            }
        }
        assert!(r == o);
    }

    #[kani::proof]
    #[kani::unwind(8)]
    fn hex_parse_n4() {
        const N: usize = 4;
        let bytes: [u8; 4] = kani::any();
        if let Ok(s) = std::str::from_utf8(&bytes) {
            let mut t = [0u64; 1];
            let r = fill_hex(N, &mut t, s);
            if r.is_ok() {
                assert!(t[0] <= 0xffff);
                let i: usize = kani::any();
                kani::assume(i < 4);
                assert!(bytes[i].is_ascii_hexdigit());
            }
        }
    }
}
