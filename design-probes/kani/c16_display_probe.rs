//@target src/sop/cube.rs
// C16 (probe) - Display of a cube read back with the evident grammar
#[cfg(kani)]
pub(crate) mod verif_c16 {
    use super::*;
    use core::fmt::Write;

    /// fixed-capacity sink
    pub struct Buf<const C: usize> {
        pub b: [u8; C],
        pub len: usize,
    }
    impl<const C: usize> core::fmt::Write for Buf<C> {
        fn write_str(&mut self, s: &str) -> core::fmt::Result {
            let x = s.as_bytes();
            let mut i = 0;
            while i < x.len() {
                if self.len == C {
                    return Err(core::fmt::Error);
                }
                self.b[self.len] = x[i];
                self.len += 1;
                i += 1;
            }
            Ok(())
        }
    }
    /// reads a product term: "0", "1", or a juxtaposition of literals `x<i>` / `!x<i>` with single-digit indices;
    /// returns (ok, is_zero, pos, neg, next position, last index seen)
    pub fn parse_cube(b: &[u8], mut p: usize, end: usize) -> (bool, bool, u32, u32, usize) {
        let mut pos = 0u32;
        let mut neg = 0u32;
        if p < end && b[p] == b'0' {
            return (true, true, 0, 0, p + 1);
        }
        if p < end && b[p] == b'1' {
            return (true, false, 0, 0, p + 1);
        }
        let mut last: i32 = -1;
        let mut any = false;
        let mut k = 0;
        while k < 8 && p < end && (b[p] == b'x' || b[p] == b'!') {
            let inv = b[p] == b'!';
            if inv {
                p += 1;
            }
            if !(p + 1 < end + 0 || p + 1 == end) || p >= end || b[p] != b'x' {
                return (false, false, 0, 0, p);
            }
            p += 1;
            if p >= end || b[p] < b'0' || b[p] > b'9' {
                return (false, false, 0, 0, p);
            }
            let v = (b[p] - b'0') as i32;
            p += 1;
            if v <= last {
                return (false, false, 0, 0, p); // increasing index order
            }
            last = v;
            if inv {
                neg |= 1 << v;
            } else {
                pos |= 1 << v;
            }
            any = true;
            k += 1;
        }
        (any, false, pos, neg, p)
    }

    /// evaluates a printed formula on assignment m with the evident grammar: `x<i>` variable (single digit), `!` complement
    /// of the following variable, juxtaposition AND, `^` XOR, `|` OR binding loosest, `0` / `1` constants, blanks ignored.
    /// Returns (well_formed, value).
    pub fn eval_text(b: &[u8], len: usize, m: usize) -> (bool, bool) {
        let mut or_acc = false;
        let mut xor_acc = false;
        let mut prod = true;
        let mut factors = 0usize;
        let mut ok = true;
        let mut p = 0;
        let mut guard = 0;
        while p < len && guard < 64 {
            guard += 1;
            let c = b[p];
            if c == b' ' {
                p += 1;
            } else if c == b'|' || c == b'^' {
                if factors == 0 {
                    ok = false;
                }
                xor_acc ^= prod;
                if c == b'|' {
                    or_acc |= xor_acc;
                    xor_acc = false;
                }
                prod = true;
                factors = 0;
                p += 1;
            } else if c == b'0' || c == b'1' {
                prod = prod && c == b'1';
                factors += 1;
                p += 1;
            } else {
                let inv = c == b'!';
                if inv {
                    p += 1;
                }
                if p + 1 >= len + 0 && !(p + 1 == len) || p >= len || b[p] != b'x' {
                    return (false, false);
                }
                p += 1;
                if p >= len || b[p] < b'0' || b[p] > b'9' {
                    return (false, false);
                }
                let v = (b[p] - b'0') as usize;
                p += 1;
                let bit = (m >> v) & 1 == 1;
                prod = prod && (bit != inv);
                factors += 1;
            }
        }
        if factors == 0 {
            ok = false;
        }
        xor_acc ^= prod;
        or_acc |= xor_acc;
        (ok && p == len, or_acc)
    }

    fn cube_display<const N: usize>() {
        let c: Cube = kani::any();
        kani::assume((c.pos & c.neg) == 0 || (c.pos == !0 && c.neg == !0));
        kani::assume(c.is_zero() || ((c.pos | c.neg) >> N) == 0);
        let mut w = Buf::<16> { b: [0; 16], len: 0 };
        let r = write!(w, "{}", c);
        assert!(r.is_ok());
        let (ok, zero, pos, neg, end) = parse_cube(&w.b, 0, w.len);
        assert!(ok && end == w.len);
        let m: usize = kani::any();
        kani::assume(m < (1 << N));
        let v = !zero && (m as u32 & pos) == pos && (m as u32 & neg) == 0;
        assert!(v == c.value(m));
        // reading the text back gives the cube itself: distinct cubes print distinct text, indices increase
        assert!(zero == c.is_zero());
        assert!(zero || (pos == c.pos && neg == c.neg));
        // the generic formula evaluator agrees
        let (wf, ev) = eval_text(&w.b, w.len, m);
        assert!(wf && ev == c.value(m));
        kani::cover!(w.len >= 5, "post-reached");
    }
    #[kani::proof]
    #[kani::unwind(18)]
    fn c16q_cube_n2() {
        cube_display::<2>();
    }
    #[kani::proof]
    #[kani::unwind(18)]
    fn c16q_cube_n3() {
        cube_display::<3>();
    }
}
