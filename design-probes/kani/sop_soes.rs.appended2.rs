// appended to src/sop/soes.rs in the overlay copy (probe)
#[cfg(kani)]
mod verif_probe {
    use super::*;
    fn any_ecube(n: usize) -> Ecube {
        let v: u32 = kani::any();
        kani::assume(v < (1u32 << n));
        let mut e = Ecube::zero();
        // build through public API only: xor of chosen vars
        let x: bool = kani::any();
        let mut i = 0;
        while i < n { if (v >> i) & 1 != 0 { e = e ^ Ecube::nth_var(i); } i += 1; }
        if x { !e } else { e }
    }
    #[kani::proof]
    #[kani::unwind(10)]
    fn soes_or_n3() {
        const N: usize = 3;
        let a = Soes { num_vars: N, cubes: vec![any_ecube(N), any_ecube(N)] };
        let b = Soes { num_vars: N, cubes: vec![any_ecube(N)] };
        let r = &a | &b;
        let m: usize = kani::any();
        kani::assume(m < (1 << N));
        assert!(r.value(m) == (a.value(m) || b.value(m)));
        let l = Lut::from(&r);
        assert!(l.value(m) == r.value(m));
    }
}
