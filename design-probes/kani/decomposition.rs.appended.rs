// appended to src/decomposition.rs in the overlay copy (probe)
#[cfg(kani)]
mod verif_probe {
    use super::*;
    #[kani::proof]
    #[kani::unwind(66)]
    fn indep_n12() {
        const N: usize = 12;
        let t: [u64; 64] = kani::any();
        let ind: usize = kani::any();
        kani::assume(ind < N);
        let r = input_independent(N, &t, ind);
        // oracle via symbolic assignment: if r then f(m) == f(m ^ bit)
        let m: usize = kani::any();
        kani::assume(m < (1 << N));
        let m2 = m ^ (1 << ind);
        let b1 = (t[m >> 6] >> (m & 63)) & 1;
        let b2 = (t[m2 >> 6] >> (m2 & 63)) & 1;
        if r { assert!(b1 == b2); }
    }
}
