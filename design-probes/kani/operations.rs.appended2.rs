// appended to src/operations.rs in the overlay copy (probe)
#[cfg(kani)]
mod verif_probe {
    use super::*;
    fn bit(t: &[u64], m: usize) -> bool { (t[m >> 6] >> (m & 63)) & 1 != 0 }
    #[kani::proof]
    #[kani::unwind(66)]
    fn equals_n7() {
        const N: usize = 7;
        let mut t = [0u64; 2];
        let k: usize = kani::any();
        fill_equals(N, &mut t, k);
        let m: usize = kani::any();
        kani::assume(m < (1 << N));
        assert!(bit(&t, m) == (m.count_ones() as usize == k));
    }

    /// Test generated for harness `operations::verif_probe::equals_n7`
    ///
    /// Check for `assertion`: "attempt to shift left with overflow"

    #[test]
    fn kani_concrete_playback_equals_n7_13076543860707158511() {
        let concrete_vals: Vec<Vec<u8>> = vec![
        // 9223372036854775808ul
        vec![0, 0, 0, 0, 0, 0, 0, 128],
    ];
    kani::concrete_playback_run(concrete_vals, equals_n7);
}
}
