// appended to src/lut.rs in the overlay copy (probe)
#[cfg(kani)]
mod verif_c17 {
    use super::*;

    #[kani::proof]
    #[kani::unwind(3)]
    fn cofactors_invalid_n3() {
        let t: u8 = kani::any();
        let l = Lut::from_blocks(3, &[t as u64]);
        let ind: usize = kani::any();
        kani::assume(ind >= 3);
        let (c0, _c1) = l.cofactors(ind);
        kani::cover!(true, "returned");
        kani::cover!(c0.blocks()[0] > 0xff, "returned-malformed");
    }

    #[kani::proof]
    #[kani::unwind(3)]
    fn flip_invalid_n3() {
        let t: u8 = kani::any();
        let l = Lut::from_blocks(3, &[t as u64]);
        let ind: usize = kani::any();
        kani::assume(ind >= 3);
        let _r = l.flip(ind);
        kani::cover!(true, "returned");
    }
}
