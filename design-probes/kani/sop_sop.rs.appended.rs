// appended to src/sop/sop.rs in the overlay copy (probe)
#[cfg(kani)]
mod verif_probe {
    use super::*;
    fn any_cube(n: usize) -> Cube {
        let p: u32 = kani::any();
        let q: u32 = kani::any();
        let m = (1u32 << n) - 1;
        kani::assume(p & !m == 0 && q & !m == 0);
        Cube::from_mask(p, q)
    }
    fn model_sort<T: Ord>(s: &mut [T]) {
        let n = s.len();
        let mut i = 1;
        while i < n {
            let mut j = i;
            while j > 0 && s[j] < s[j - 1] { s.swap(j, j - 1); j -= 1; }
            i += 1;
        }
    }
    #[kani::proof]
    #[kani::unwind(5)]
    #[kani::stub(<[Cube]>::sort, model_sort)]
    fn sop_and_n2() {
        const N: usize = 2;
        let a = Sop { num_vars: N, cubes: vec![any_cube(N), any_cube(N)] };
        let b = Sop { num_vars: N, cubes: vec![any_cube(N)] };
        let r = Sop::and(&a, &b);
        let m: usize = kani::any();
        kani::assume(m < (1 << N));
        assert!(r.value(m) == (a.value(m) && b.value(m)));
    }
    #[kani::proof]
    #[kani::unwind(34)]
    #[kani::stub(<[Cube]>::sort, model_sort)]
    fn sop_not_n2() {
        const N: usize = 2;
        let a = Sop { num_vars: N, cubes: vec![any_cube(N)] };
        let r = !&a;
        let m: usize = kani::any();
        kani::assume(m < (1 << N));
        assert!(r.value(m) == !a.value(m));
    }
}
