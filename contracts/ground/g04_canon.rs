//@target src/canonization.rs
// C04 / C05 - ground facts about the concrete flip/swap sequences of the current tree, n = 0..=8
// (FLIPS[n] / SWAPS[n] for n <= 6; generate_gray_flips(n, true) / generate_swaps(n, true) for n = 7, 8).
// Closed facts with no input: exhaustive evaluation IS the decision.  The evaluators below are transcriptions of the
// Verus spec functions of contracts/verus/{canon_spec,walkpi_spec,swapbits_spec}.rs (p_pi, n_pi, npn_pi, perm_at,
// n_mask, npn_mask, swapbitsu) and of the property's certificate formula; they use none of the library's kernels.
//   g04*_seq_facts   == ground_seq_facts      (entries in range, lengths n! / 2^n)
//   g04*_X_closed    == ground_X_closed       (composed index map of the whole walk is the identity, even polarity)
//   g05*_X_cert      the decoded certificate (perm_at, mask) of every step denotes exactly the composed map of that step
//   g04*_X_cover     the decoded certificates of a walk are exactly the n! / 2^(n+1) / n!*2^(n+1) group elements
#[cfg(test)]
mod verif_ground_c04 {
    use super::*;
    use std::collections::HashSet;

    fn flips_for(n: usize) -> Vec<u8> {
        if n <= 6 { FLIPS[n].to_vec() } else { generate_gray_flips(n, true) }
    }
    fn swaps_for(n: usize) -> Vec<u8> {
        if n <= 6 { SWAPS[n].to_vec() } else { generate_swaps(n, true) }
    }
    fn swapbits(m: usize, i: usize, j: usize) -> usize {
        let bi = (m >> i) & 1;
        let bj = (m >> j) & 1;
        (m & !(1 << i) & !(1 << j)) | (bj << i) | (bi << j)
    }
    fn fact(n: usize) -> usize {
        (1..=n).product::<usize>()
    }
    /// the property's certificate formula: x[perm[i]] = y[i] ^ mask[i]
    fn cert_x(n: usize, perm: &[u8], mask: u32, y: usize) -> usize {
        let mut x = 0usize;
        for i in 0..n {
            let b = ((y >> i) & 1) ^ ((mask as usize >> i) & 1);
            x |= b << (perm[i] as usize);
        }
        x
    }
    fn is_perm(n: usize, p: &[u8]) -> bool {
        let mut seen = vec![false; n];
        p.len() == n && p.iter().all(|&v| (v as usize) < n && !std::mem::replace(&mut seen[v as usize], true))
    }

    fn seq_facts(n: usize) {
        let f = flips_for(n);
        let s = swaps_for(n);
        assert_eq!(s.len(), if n <= 1 { 0 } else { fact(n) }, "n={}: swap sequence has {} entries, expected n! (0 for n <= 1)", n, s.len());
        assert_eq!(f.len(), if n == 0 { 0 } else { 1 << n }, "n={}: flip sequence has {} entries, expected 2^n (0 for n = 0)", n, f.len());
        for (k, x) in s.iter().enumerate() {
            assert!((*x as usize) + 1 < n, "n={}: swap entry {} = {} is out of range", n, k, x);
        }
        for (k, x) in f.iter().enumerate() {
            assert!((*x as usize) < n, "n={}: flip entry {} = {} is out of range", n, k, x);
        }
    }

    /// P walk: A_s = A_{s-1} o g_s, g_s = exchange of bits (sw[s-1], sw[s-1]+1); checks closure, certificates, coverage
    fn p_facts(n: usize, closed: bool, cert: bool, cover: bool) {
        let sw = swaps_for(n);
        let size = 1usize << n;
        let mut a: Vec<usize> = (0..size).collect();
        let mut perm: Vec<u8> = (0..n as u8).collect();
        let mut seen = HashSet::new();
        for s in 1..=sw.len() {
            let x = sw[s - 1] as usize;
            a = (0..size).map(|m| a[swapbits(m, x, x + 1)]).collect();
            perm.swap(x, x + 1); // perm_at(n, sw, s)
            if cert {
                assert!(is_perm(n, &perm));
                for y in 0..size {
                    assert_eq!(a[y], cert_x(n, &perm, 0, y), "P n={} step {}: certificate perm={:?} does not denote the walk's map at y={}", n, s, perm, y);
                }
            }
            if cover {
                assert!(seen.insert(perm.clone()), "P n={}: order {:?} reached twice (step {})", n, perm, s);
            }
        }
        if closed {
            for m in 0..size {
                assert_eq!(a[m], m, "P n={}: the swap walk is not closed (assignment {} maps to {})", n, m, a[m]);
            }
        }
        if cover && n >= 2 {
            assert_eq!(seen.len(), fact(n), "P n={}: {} of {} orders reached", n, seen.len(), fact(n));
        }
    }

    /// N walk: comparison point q = s-1: flip flips[q/2] when q is even, then complement
    fn n_facts(n: usize, closed: bool, cert: bool, cover: bool) {
        let fl = flips_for(n);
        let size = 1usize << n;
        let mut a: Vec<usize> = (0..size).collect();
        let id: Vec<u8> = (0..n as u8).collect();
        let mut mask = 0u32;
        let mut seen = HashSet::new();
        for s in 1..=2 * fl.len() {
            let q = s - 1;
            if q % 2 == 0 {
                let f = fl[q / 2] as usize;
                a = (0..size).map(|m| a[m ^ (1 << f)]).collect();
                mask ^= 1 << f;
            }
            mask ^= 1 << n; // n_mask(n, fl, s)
            let out = s % 2 == 1;
            if cert {
                assert!(mask < (1 << (n + 1)));
                assert_eq!(out, (mask >> n) & 1 == 1, "N n={} step {}: output polarity of the certificate is wrong", n, s);
                for y in 0..size {
                    assert_eq!(a[y], cert_x(n, &id, mask, y), "N n={} step {}: certificate mask={:#b} does not denote the walk's map at y={}", n, s, mask, y);
                }
            }
            if cover {
                assert!(seen.insert(mask), "N n={}: complementation {:#b} reached twice (step {})", n, mask, s);
            }
        }
        if closed {
            for m in 0..size {
                assert_eq!(a[m], m, "N n={}: the flip walk is not closed (assignment {} maps to {})", n, m, a[m]);
            }
            assert_eq!(mask, 0, "N n={}: the flip walk does not end on the identity complementation", n);
        }
        if cover && n >= 1 {
            assert_eq!(seen.len(), 1 << (n + 1), "N n={}: {} of {} complementations reached", n, seen.len(), 1 << (n + 1));
        }
    }

    /// NPN walk: comparison point q = s-1 = (a*F + b)*2 + c
    fn npn_facts(n: usize, closed: bool, cert: bool, cover: bool) {
        let fl = flips_for(n);
        let sw = swaps_for(n);
        let f_len = fl.len();
        if f_len == 0 {
            return;
        }
        let size = 1usize << n;
        let mut a: Vec<usize> = (0..size).collect();
        let mut tmp: Vec<usize> = vec![0; size];
        let mut perm: Vec<u8> = (0..n as u8).collect();
        let mut mask = 0u32;
        let mut seen: HashSet<(Vec<u8>, u32)> = HashSet::new();
        let total = 2 * sw.len() * f_len;
        for s in 1..=total {
            let q = s - 1;
            let c = q % 2;
            let b = (q / 2) % f_len;
            let ai = (q / 2) / f_len;
            if c == 0 {
                let f = fl[b] as usize;
                let x = sw[ai] as usize;
                // A_s[m] = A_{s-1}[m2], m1 = m ^ (1 << f), m2 = swapbits(m1) when a new swap block starts (b == 0)
                for m in 0..size {
                    let m1 = m ^ (1 << f);
                    let m2 = if b == 0 { swapbits(m1, x, x + 1) } else { m1 };
                    tmp[m] = a[m2];
                }
                std::mem::swap(&mut a, &mut tmp);
                mask ^= 1 << f;
                if b == 0 {
                    perm.swap(x, x + 1); // perm_at(n, sw, a + 1)
                }
            }
            mask ^= 1 << n; // npn_mask(n, fl, s)
            if cert {
                assert!(mask < (1 << (n + 1)));
                assert_eq!(s % 2 == 1, (mask >> n) & 1 == 1, "NPN n={} step {}: output polarity of the certificate is wrong", n, s);
                for y in 0..size {
                    if a[y] != cert_x(n, &perm, mask, y) {
                        panic!("NPN n={} step {}: certificate perm={:?} mask={:#b} does not denote the walk's map at y={}", n, s, perm, mask, y);
                    }
                }
            }
            if cover {
                assert!(seen.insert((perm.clone(), mask)), "NPN n={}: element perm={:?} mask={:#b} reached twice (step {})", n, perm, mask, s);
            }
        }
        if closed {
            for m in 0..size {
                assert_eq!(a[m], m, "NPN n={}: the walk is not closed (assignment {} maps to {})", n, m, a[m]);
            }
            if n >= 2 {
                assert_eq!(mask, 0, "NPN n={}: the walk does not end on the identity complementation", n);
            }
        }
        if cover && n >= 2 {
            assert!(is_perm(n, &perm));
            assert_eq!(seen.len(), fact(n) << (n + 1), "NPN n={}: {} of {} group elements reached", n, seen.len(), fact(n) << (n + 1));
        }
    }

    #[test]
    fn g04q_seq_facts() {
        for n in 0..=8 {
            seq_facts(n);
        }
    }
    #[test]
    fn g04q_p_closed() {
        for n in 0..=8 {
            p_facts(n, true, false, false);
        }
    }
    #[test]
    fn g04q_n_closed() {
        for n in 0..=8 {
            n_facts(n, true, false, false);
        }
    }
    #[test]
    fn g04q_npn_closed_n0_to_7() {
        for n in 0..=7 {
            npn_facts(n, true, false, false);
        }
    }
    #[test]
    fn g04q_npn_closed_n8() {
        npn_facts(8, true, false, false);
    }
    #[test]
    fn g04q_p_cover() {
        for n in 0..=8 {
            p_facts(n, false, false, true);
        }
    }
    #[test]
    fn g04q_n_cover() {
        for n in 0..=8 {
            n_facts(n, false, false, true);
        }
    }
    #[test]
    fn g04q_npn_cover_n0_to_6() {
        for n in 0..=6 {
            npn_facts(n, false, false, true);
        }
    }
    #[test]
    fn g04q_npn_cover_n7() {
        npn_facts(7, false, false, true);
    }
    #[test]
    fn g04q_npn_cover_n8() {
        npn_facts(8, false, false, true);
    }
    #[test]
    fn g05q_p_cert() {
        for n in 0..=8 {
            p_facts(n, false, true, false);
        }
    }
    #[test]
    fn g05q_n_cert() {
        for n in 0..=8 {
            n_facts(n, false, true, false);
        }
    }
    #[test]
    fn g05q_npn_cert_n0_to_6() {
        for n in 0..=6 {
            npn_facts(n, false, true, false);
        }
    }
    #[test]
    fn g05q_npn_cert_n7() {
        npn_facts(7, false, true, false);
    }
    #[test]
    fn g05q_npn_cert_n8() {
        npn_facts(8, false, true, false);
    }
    /// vacuity guard: the evaluators reject a corrupted sequence (one entry changed)
    #[test]
    fn g04q_guard_rejects_corrupted() {
        let mut sw = SWAPS[4].to_vec();
        sw[7] = (sw[7] + 1) % 3;
        let size = 16usize;
        let mut a: Vec<usize> = (0..size).collect();
        for s in 1..=sw.len() {
            let x = sw[s - 1] as usize;
            a = (0..size).map(|m| a[swapbits(m, x, x + 1)]).collect();
        }
        assert!((0..size).any(|m| a[m] != m), "a corrupted swap table still closes: the evaluator is not discriminating");
        let mut fl = FLIPS[3].to_vec();
        fl[2] = 1;
        let mut cur = 0u32;
        let mut seen = HashSet::new();
        let mut dup = false;
        for f in fl {
            cur ^= 1 << f;
            dup |= !seen.insert(cur);
        }
        assert!(dup || cur != 0);
    }
}
