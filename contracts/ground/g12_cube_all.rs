//@target src/sop/cube.rs
// C12 - Cube::all(n): ground evaluation (closed fact, no input): exactly the 3^n non-zero cubes over
// n variables, each once.
#[cfg(test)]
mod verif_ground_c12 {
    use super::*;

    fn check_all(n: usize) {
        let items: Vec<Cube> = Cube::all(n).collect();
        let mut expect = 1usize;
        for _ in 0..n {
            expect *= 3;
        }
        assert_eq!(items.len(), expect, "Cube::all({}) yields {} items, expected 3^n = {}", n, items.len(), expect);
        let mut seen = std::collections::HashSet::new();
        for c in &items {
            assert!(c.pos & c.neg == 0, "Cube::all({}) yields a contradictory cube {:?}", n, c);
            assert!((c.pos | c.neg) >> n == 0, "Cube::all({}) yields a cube using a variable >= n: {:?}", n, c);
            assert!(seen.insert((c.pos, c.neg)), "Cube::all({}) yields {:?} twice", n, c);
        }
        // every non-zero cube over n variables is present
        for pos in 0u32..(1 << n) {
            for neg in 0u32..(1 << n) {
                if pos & neg == 0 {
                    assert!(seen.contains(&(pos, neg)), "Cube::all({}) misses pos={:#x} neg={:#x}", n, pos, neg);
                }
            }
        }
        // distinct cubes are distinct functions (semantic equality), by evaluation
        if n <= 3 {
            for a in &items {
                for b in &items {
                    if a != b {
                        assert!((0..(1usize << n)).any(|m| a.value(m) != b.value(m)), "{:?} and {:?} denote the same function", a, b);
                    }
                }
            }
        }
    }

    #[test]
    fn g12q_all_n0_to_n4() {
        for n in 0..=4 {
            check_all(n);
        }
    }

    #[test]
    fn g12q_all_n5() {
        check_all(5);
    }

    #[test]
    fn g12q_guard_rejects_corrupted() {
        // vacuity guard: the evaluator must reject a corrupted enumeration
        let mut items: Vec<Cube> = Cube::all(2).collect();
        items[3] = items[4];
        let mut seen = std::collections::HashSet::new();
        assert!(!items.iter().all(|c| seen.insert((c.pos, c.neg))));
    }
}
