//@target src/sop/ecube.rs
// C13 - Ecube::all(n): ground evaluation (closed fact, no input): exactly the 2^(n+1) exclusive cubes over n
// variables, each once, pairwise distinct as functions.
#[cfg(test)]
mod verif_ground_c13 {
    use super::*;

    fn check_all(n: usize) {
        let items: Vec<Ecube> = Ecube::all(n).collect();
        assert_eq!(items.len(), 1usize << (n + 1), "Ecube::all({}) yields {} items, expected 2^(n+1)", n, items.len());
        let mut seen = std::collections::HashSet::new();
        for c in &items {
            assert!(c.vars >> n == 0, "Ecube::all({}) yields a term using a variable >= n: {:?}", n, c);
            assert!(seen.insert((c.vars, c.xnor)), "Ecube::all({}) yields {:?} twice", n, c);
        }
        for vars in 0u32..(1 << n) {
            for xnor in [false, true] {
                assert!(seen.contains(&(vars, xnor)), "Ecube::all({}) misses vars={:#x} xnor={}", n, vars, xnor);
            }
        }
        // pairwise distinct as functions
        let mut tables = std::collections::HashSet::new();
        for c in &items {
            let mut t = 0u64;
            for m in 0..(1usize << n) {
                if c.value(m) {
                    t |= 1 << m;
                }
            }
            assert!(tables.insert(t), "Ecube::all({}): {:?} denotes the same function as another item", n, c);
        }
    }

    #[test]
    fn g13q_ecube_all_n0_to_3() {
        for n in 0..=3 {
            check_all(n);
        }
    }
    #[test]
    fn g13q_ecube_all_n4_n5() {
        check_all(4);
        check_all(5);
    }
    #[test]
    fn g13q_guard_rejects_corrupted() {
        // vacuity guard: the evaluator rejects an enumeration with one item changed
        let mut items: Vec<Ecube> = Ecube::all(3).collect();
        items[5] = items[4];
        let mut seen = std::collections::HashSet::new();
        assert!(!items.iter().all(|c| seen.insert((c.vars, c.xnor))));
    }
}
