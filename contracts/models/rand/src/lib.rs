//! Contract-model of the part of `rand 0.8` that volute uses:
//! `rand::thread_rng().next_u64()` returns the next element of an arbitrary sequence.
pub static mut SEQ: [u64; 512] = [0; 512];
pub static mut CALLS: usize = 0;
pub trait RngCore { fn next_u64(&mut self) -> u64; }
pub struct ThreadRng;
pub fn thread_rng() -> ThreadRng { ThreadRng }
impl RngCore for ThreadRng {
    fn next_u64(&mut self) -> u64 {
        unsafe {
            let i = CALLS;
            CALLS += 1;
            SEQ[i]
        }
    }
}
