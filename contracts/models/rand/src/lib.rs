//! Contract-model of the part of `rand 0.8` that volute uses (C19):
//! `rand::thread_rng().next_u64()` returns the next element of an arbitrary (harness-controlled) sequence and counts
//! the calls.  `Rng::gen` / `gen_range` are modelled on top of it (one draw each; any value of the range may result),
//! so that a change of the library to those entry points still builds and is judged against the same triple.
pub static mut SEQ: [u64; 512] = [0; 512];
pub static mut CALLS: usize = 0;
pub trait RngCore {
    fn next_u64(&mut self) -> u64;
    fn next_u32(&mut self) -> u32 {
        self.next_u64() as u32
    }
}
pub struct ThreadRng;
pub fn thread_rng() -> ThreadRng {
    ThreadRng
}
impl RngCore for ThreadRng {
    fn next_u64(&mut self) -> u64 {
        unsafe {
            let i = CALLS;
            CALLS += 1;
            SEQ[i]
        }
    }
}
pub trait SampleRange {
    fn sample(self, draw: u64) -> u64;
}
impl SampleRange for core::ops::Range<u64> {
    fn sample(self, draw: u64) -> u64 {
        assert!(self.start < self.end, "cannot sample empty range");
        self.start + draw % (self.end - self.start)
    }
}
impl SampleRange for core::ops::RangeInclusive<u64> {
    fn sample(self, draw: u64) -> u64 {
        let (a, b) = (*self.start(), *self.end());
        assert!(a <= b, "cannot sample empty range");
        if a == 0 && b == u64::MAX {
            draw
        } else {
            a + draw % (b - a + 1)
        }
    }
}
pub trait Rng: RngCore {
    fn gen_range<R: SampleRange>(&mut self, range: R) -> u64 {
        let d = self.next_u64();
        range.sample(d)
    }
    fn gen_u64(&mut self) -> u64 {
        self.next_u64()
    }
}
impl<T: RngCore> Rng for T {}
pub mod prelude {
    pub use super::{thread_rng, Rng, RngCore, ThreadRng};
}
