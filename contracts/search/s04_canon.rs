//@target src/lib.rs
// Replay searcher for C04 / C05 (DESIGN 2.6): native, bounded, exhaustive over every function of n <= 4 variables.
// It only attaches a concrete input to a violation that a failed proof obligation has already established; it never
// decides a property.  Each test panics with the first failing input.
#[cfg(test)]
mod verif_search_c04 {
    use crate::Lut;

    fn apply(n: usize, f: &Lut, perm: &[u8], mask: u32) -> Lut {
        let mut g = Lut::zero(n);
        for y in 0..(1usize << n) {
            let mut x = 0usize;
            for i in 0..n {
                let yi = ((y >> i) & 1) ^ ((mask as usize >> i) & 1);
                x |= yi << (perm[i] as usize);
            }
            let v = f.value(x) ^ ((mask >> n) & 1 != 0);
            g.set_value(y, v);
        }
        g
    }
    fn perms(n: usize) -> Vec<Vec<u8>> {
        fn rec(cur: &mut Vec<u8>, used: &mut Vec<bool>, n: usize, out: &mut Vec<Vec<u8>>) {
            if cur.len() == n {
                out.push(cur.clone());
                return;
            }
            for v in 0..n {
                if !used[v] {
                    used[v] = true;
                    cur.push(v as u8);
                    rec(cur, used, n, out);
                    cur.pop();
                    used[v] = false;
                }
            }
        }
        let mut out = vec![];
        rec(&mut vec![], &mut vec![false; n], n, &mut out);
        out
    }
    fn is_perm(n: usize, p: &[u8]) -> bool {
        let mut s: Vec<u8> = p.to_vec();
        s.sort();
        s == (0..n as u8).collect::<Vec<u8>>()
    }

    #[test]
    fn s04_p_canonization() {
        for n in 0..=4usize {
            let ps = perms(n);
            for f in Lut::all_functions(n) {
                let (c, perm) = f.p_canonization();
                let min = ps.iter().map(|p| apply(n, &f, p, 0)).min().unwrap();
                assert!(c == min, "p_canonization({}) = {} but the orbit minimum is {}", f, c, min);
                assert!(is_perm(n, &perm) && apply(n, &f, &perm, 0) == c, "p_canonization({}) = {} with invalid certificate perm={:?}", f, c, perm);
            }
        }
    }
    #[test]
    fn s04_n_canonization() {
        for n in 0..=4usize {
            let id: Vec<u8> = (0..n as u8).collect();
            for f in Lut::all_functions(n) {
                let (c, mask) = f.n_canonization();
                let min = (0..(1u32 << (n + 1))).map(|m| apply(n, &f, &id, m)).min().unwrap();
                assert!(c == min, "n_canonization({}) = {} but the orbit minimum is {}", f, c, min);
                assert!(mask < (1 << (n + 1)) && apply(n, &f, &id, mask) == c, "n_canonization({}) = {} with invalid certificate mask={:#b}", f, c, mask);
            }
        }
    }
    #[test]
    fn s04_npn_canonization() {
        for n in 0..=4usize {
            let ps = perms(n);
            for f in Lut::all_functions(n) {
                let (c, perm, mask) = f.npn_canonization();
                if n <= 3 {
                    let min = ps.iter().flat_map(|p| (0..(1u32 << (n + 1))).map(move |m| (p, m))).map(|(p, m)| apply(n, &f, p, m)).min().unwrap();
                    assert!(c == min, "npn_canonization({}) = {} but the orbit minimum is {}", f, c, min);
                } else {
                    assert!(c <= f && c.npn_canonization().0 == c, "npn_canonization({}) = {} is not a fixed point / not <= input", f, c);
                }
                assert!(is_perm(n, &perm) && mask < (1 << (n + 1)) && apply(n, &f, &perm, mask) == c,
                        "npn_canonization({}) = {} with invalid certificate perm={:?} mask={:#b}", f, c, perm, mask);
            }
        }
    }
}
