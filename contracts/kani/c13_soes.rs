//@target src/sop/soes.rs
// C13 - Soes (OR of XOR terms).  Child module of soes.rs: terms are built directly (symbolic Ecubes restricted to
// the n variables).  Bounded triples: up to 4 terms over n <= 4 variables (the property's own range).
#[cfg(kani)]
mod verif_c13s {
    use super::*;
    use crate::operations::verif_spec::bit;

    /// a Soes of exactly K symbolic terms over n variables (every term count 0..=4 has its own harness)
    fn any_soes<const K: usize>(n: usize) -> (Soes, [Ecube; K]) {
        let mut terms: [Ecube; K] = [Ecube::zero(); K];
        let mut i = 0;
        while i < K {
            terms[i] = super::super::ecube::verif_c13::any_over(n);
            i += 1;
        }
        (Soes { num_vars: n, cubes: terms.to_vec() }, terms)
    }
    fn spec_value<const K: usize>(terms: &[Ecube; K], m: usize) -> bool {
        let mut r = false;
        let mut i = 0;
        while i < K {
            if terms[i].value(m) {
                r = true;
            }
            i += 1;
        }
        r
    }

    /// value is the OR of the term values; is_zero / is_one only hold for the respective constants
    fn value_k<const K: usize>(n: usize) {
        let (s, terms) = any_soes::<K>(n);
        let m: usize = kani::any();
        kani::assume(m < (1usize << n));
        assert!(s.value(m) == spec_value::<K>(&terms, m));
        if s.is_zero() {
            assert!(!s.value(m));
        }
        if s.is_one() {
            assert!(s.value(m));
        }
        assert!(s.num_cubes() == K && s.num_vars() == n);
        kani::cover!(s.value(m) || K == 0, "post-reached");
    }

    /// | denotes OR in all four forms; operands unchanged
    fn or_k<const K1: usize, const K2: usize>(n: usize) {
        let (a, ta) = any_soes::<K1>(n);
        let (b, tb) = any_soes::<K2>(n);
        let m: usize = kani::any();
        kani::assume(m < (1usize << n));
        let expect = spec_value::<K1>(&ta, m) || spec_value::<K2>(&tb, m);
        let r = &a | &b;
        assert!(r.value(m) == expect && r.num_vars() == n);
        assert!((a.clone() | b.clone()).value(m) == expect);
        assert!((&a | b.clone()).value(m) == expect);
        assert!((a.clone() | &b).value(m) == expect);
        assert!(a.value(m) == spec_value::<K1>(&ta, m) && b.value(m) == spec_value::<K2>(&tb, m));
        kani::cover!(r.value(m) || K1 + K2 == 0, "post-reached");
    }

    /// conversion to Lut tabulates value
    fn to_lut_k<const K: usize>(n: usize) {
        let (s, terms) = any_soes::<K>(n);
        let l = Lut::from(&s);
        let m: usize = kani::any();
        kani::assume(m < (1usize << n));
        assert!(l.num_vars() == n);
        assert!(bit(l.blocks(), m) == spec_value::<K>(&terms, m));
        assert!(n >= 6 || l.blocks()[0] >> (1usize << n) == 0);
        kani::cover!(bit(l.blocks(), m) || K == 0, "post-reached");
    }

    #[kani::proof]
    #[kani::unwind(4)]
    fn c13q_soes_constants() {
        let n: usize = kani::any();
        kani::assume(n <= 32);
        let m: usize = kani::any();
        assert!(Soes::zero(n).is_zero() && !Soes::zero(n).is_one() && !Soes::zero(n).value(m));
        assert!(Soes::one(n).is_one() && !Soes::one(n).is_zero() && Soes::one(n).value(m));
        let v: usize = kani::any();
        kani::assume(v < 32);
        assert!(Soes::nth_var(32, v).value(m) == ((m >> v) & 1 == 1));
        assert!(Soes::nth_var_inv(32, v).value(m) == ((m >> v) & 1 == 0));
        assert!(!Soes::nth_var(32, v).is_zero() && !Soes::nth_var(32, v).is_one());
        kani::cover!(true, "post-reached");
    }

    macro_rules! h {
        ($name:ident, $unw:expr, $body:expr) => {
            #[kani::proof]
            #[kani::unwind($unw)]
            fn $name() {
                $body;
            }
        };
    }
    h!(c13q_soes_value_k0_n2, 6, value_k::<0>(2));
    h!(c13q_soes_value_k1_n1, 6, value_k::<1>(1));
    h!(c13q_soes_value_k2_n2, 6, value_k::<2>(2));
    h!(c13q_soes_value_k3_n3, 6, value_k::<3>(3));
    h!(c13q_soes_value_k4_n4, 7, value_k::<4>(4));
    h!(c13q_soes_or_k0k1_n2, 6, or_k::<0, 1>(2));
    h!(c13q_soes_or_k1k1_n2, 6, or_k::<1, 1>(2));
    h!(c13q_soes_or_k2k1_n3, 6, or_k::<2, 1>(3));
    h!(c13q_soes_or_k2k2_n4, 7, or_k::<2, 2>(4));
    h!(c13q_soes_or_k3k1_n4, 7, or_k::<3, 1>(4));
    h!(c13q_soes_lut_k0_n2, 6, to_lut_k::<0>(2));
    h!(c13q_soes_lut_k1_n2, 6, to_lut_k::<1>(2));
    h!(c13q_soes_lut_k2_n2, 6, to_lut_k::<2>(2));
    h!(c13q_soes_lut_k3_n3, 10, to_lut_k::<3>(3));
    h!(c13q_soes_lut_k4_n4, 18, to_lut_k::<4>(4));
    h!(c13t_soes_or_k4k4_n4, 12, or_k::<4, 4>(4));
    h!(c13t_soes_or_k3k2_n5, 7, or_k::<3, 2>(5));
    h!(c13t_soes_lut_k4_n5, 34, to_lut_k::<4>(5));
    h!(c13t_soes_value_k4_n5, 7, value_k::<4>(5));
    // cross-word sizes: one symbolic term over 7 / 8 variables (the word index takes part in the parity)
    h!(c13q_soes_lut_k1_n7, 132, to_lut_k::<1>(7));
    h!(c13q_soes_lut_k1_n8, 260, to_lut_k::<1>(8));
    h!(c13t_soes_lut_k2_n8, 260, to_lut_k::<2>(8));
}
