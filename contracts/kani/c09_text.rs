//@target src/operations.rs
//@attr hex_str_size #[cfg_attr(kani, kani::ensures(|r: &usize| *r == if num_vars <= 2 { 1 } else if num_vars >= 6 { 16 } else { 1usize << (num_vars - 2) }))]
// C09 - text forms and parsing, BOUNDED (model_checking level): core::fmt and u64::from_str_radix are executed
// symbolically by CBMC, which is only affordable for small widths.  Every bound is stated in the harness name:
//   print: one-word tables, n fixed; parse: n fixed, string length fixed per harness, bytes symbolic (any UTF-8 string
//   of that length, including non-ASCII).
#[cfg(kani)]
mod verif_c09 {
    use super::verif_spec::*;
    use super::*;

    fn width(n: usize) -> usize {
        if n <= 2 { 1 } else if n >= 6 { 16 } else { 1 << (n - 2) }
    }

    #[kani::proof_for_contract(hex_str_size)]
    fn c09q_hex_str_size_contract() {
        let n: usize = kani::any();
        let r = hex_str_size(n);
        // max(1, 2^min(n,6) / 4), restated independently
        let m = if n < 6 { n } else { 6 };
        let q = (1usize << m) / 4;
        assert!(r == if q == 0 { 1 } else { q });
    }

    fn hexdigit(nib: u64) -> u8 {
        if nib < 10 { b'0' + nib as u8 } else { b'a' + (nib as u8 - 10) }
    }

    /// to_hex of a one-word table: exactly width(n) lower-case hex digits, most significant first
    fn print_hex(n: usize) {
        let t = any_table::<1>(n);
        let s = to_hex(n, &t);
        let b = s.as_bytes();
        let w = width(n);
        assert!(b.len() == w);
        let i: usize = kani::any();
        kani::assume(i < w);
        let nib = (t[0] >> (4 * (w - 1 - i))) & 0xf;
        assert!(b[i] == hexdigit(nib));
        kani::cover!(b[i] != b'0', "post-reached");
    }
    /// to_bin of a one-word table: exactly 2^n binary digits, most significant first
    fn print_bin(n: usize) {
        let t = any_table::<1>(n);
        let s = to_bin(n, &t);
        let b = s.as_bytes();
        let w = 1usize << n;
        assert!(b.len() == w);
        let i: usize = kani::any();
        kani::assume(i < w);
        let bit = (t[0] >> (w - 1 - i)) & 1;
        assert!(b[i] == b'0' + bit as u8);
        kani::cover!(b[i] == b'1', "post-reached");
    }

    fn digit_value(c: u8) -> Option<u64> {
        if c >= b'0' && c <= b'9' {
            Some((c - b'0') as u64)
        } else if c >= b'a' && c <= b'f' {
            Some((c - b'a') as u64 + 10)
        } else if c >= b'A' && c <= b'F' {
            Some((c - b'A') as u64 + 10)
        } else {
            None
        }
    }

    struct AsHex<'a>(usize, &'a [u64]);
    impl<'a> core::fmt::Display for AsHex<'a> {
        fn fmt(&self, f: &mut core::fmt::Formatter<'_>) -> core::fmt::Result {
            fmt_hex(self.0, self.1, f)
        }
    }
    struct AsBin<'a>(usize, &'a [u64]);
    impl<'a> core::fmt::Display for AsBin<'a> {
        fn fmt(&self, f: &mut core::fmt::Formatter<'_>) -> core::fmt::Result {
            fmt_bin(self.0, self.1, f)
        }
    }
    /// the wrappers fmt_hex / fmt_bin, checked MODULARLY against their callees: to_hex / to_bin are replaced (Kani stub) by
    /// functions returning a fixed marker text, so the triple says: output == "Lut" + n in decimal + "(" + callee's text + ")".
    /// (The callees' own contracts are the print_* triples above; formatting a full table through core::fmt is out of reach.)
    pub fn stub_digits(_num_vars: usize, _table: &[u64]) -> String {
        String::from("a5")
    }
    fn wrap<const T: usize>(n: usize, digits: &str, bin: bool) {
        let t = [0u64; T];
        let s = if bin { format!("{}", AsBin(n, &t)) } else { format!("{}", AsHex(n, &t)) };
        check_wrapped(&s, digits);
        kani::cover!(s.as_bytes().len() == 3 + digits.as_bytes().len() + 4, "post-reached");
    }
    macro_rules! w {
        ($name:ident, $t:expr, $n:expr, $digits:expr, $bin:expr) => {
            #[kani::proof]
            #[kani::unwind(8)]
            #[kani::stub(crate::operations::to_hex, stub_digits)]
            #[kani::stub(crate::operations::to_bin, stub_digits)]
            fn $name() {
                wrap::<$t>($n, $digits, $bin);
            }
        };
    }
    /// Display / LowerHex / Binary of both types forward to the wrappers (same modular triple)
    fn check_wrapped(s: &str, digits: &str) {
        // "Lut" + n in decimal + "(" ... ")": holds however the digits in between are produced, so a correct
        // re-implementation that does not go through to_hex/to_bin is not an alarm; when the (stubbed) callee IS used,
        // its text must appear unchanged between the parentheses
        let b = s.as_bytes();
        let d = digits.as_bytes();
        assert!(b.len() >= 3 + d.len() + 2);
        assert!(b[0] == b'L' && b[1] == b'u' && b[2] == b't');
        let mut i = 0;
        while i < d.len() {
            assert!(b[3 + i] == d[i]);
            i += 1;
        }
        let k = 3 + d.len();
        assert!(b[k] == b'(' && b[b.len() - 1] == b')');
        if b.len() == k + 4 {
            assert!((b[k + 1] == b'a' && b[k + 2] == b'5') || (b[k + 1] == b'0' && b[k + 2] == b'0') || (b[k + 1] == b'0' && b[k + 2] == b'1') || (b[k + 1] == b'1' && b[k + 2] == b'0'));
        }
    }
    /// a sink that keeps the first bytes and then refuses further output: the prefix "Lut" + n + "(" is checked whatever
    /// way the digits after it are produced (no dependence on the callee, no cost for the digits)
    struct Head {
        buf: [u8; 8],
        len: usize,
    }
    impl core::fmt::Write for Head {
        fn write_str(&mut self, s: &str) -> core::fmt::Result {
            let b = s.as_bytes();
            let mut i = 0;
            while i < b.len() {
                if self.len == 8 {
                    return Err(core::fmt::Error);
                }
                self.buf[self.len] = b[i];
                self.len += 1;
                i += 1;
            }
            Ok(())
        }
    }
    fn check_prefix(h: &Head, digits: &str) {
        let d = digits.as_bytes();
        assert!(h.len >= 3 + d.len() + 1);
        assert!(h.buf[0] == b'L' && h.buf[1] == b'u' && h.buf[2] == b't');
        let mut i = 0;
        while i < d.len() {
            assert!(h.buf[3 + i] == d[i]);
            i += 1;
        }
        assert!(h.buf[3 + d.len()] == b'(');
    }
    macro_rules! px {
        ($name:ident, $unw:expr, $digits:expr, $make:expr) => {
            #[kani::proof]
            #[kani::unwind($unw)]
            #[kani::stub(crate::operations::to_hex, stub_digits)]
            #[kani::stub(crate::operations::to_bin, stub_digits)]
            fn $name() {
                use core::fmt::Write;
                let d = $make;
                let mut h = Head { buf: [0; 8], len: 0 };
                let _ = write!(h, "{}", d);
                check_prefix(&h, $digits);
                let mut h = Head { buf: [0; 8], len: 0 };
                let _ = write!(h, "{:x}", d);
                check_prefix(&h, $digits);
                let mut h = Head { buf: [0; 8], len: 0 };
                let _ = write!(h, "{:b}", d);
                check_prefix(&h, $digits);
                kani::cover!(true, "post-reached");
            }
        };
    }
    px!(c09q_prefix_d_n0, 10, "0", crate::Lut::zero(0));
    px!(c09q_prefix_d_n9, 10, "9", crate::Lut::zero(9));
    px!(c09q_prefix_d_n10, 18, "10", crate::Lut::zero(10));
    px!(c09q_prefix_d_n12, 66, "12", crate::Lut::zero(12));
    px!(c09t_prefix_d_n11, 34, "11", crate::Lut::zero(11));
    px!(c09t_prefix_d_n14, 258, "14", crate::Lut::zero(14));
    px!(c09q_prefix_s_n3, 10, "3", crate::StaticLut::<3, 1>::zero());
    px!(c09q_prefix_s_n10, 10, "10", crate::StaticLut::<10, 16>::zero());
    px!(c09q_prefix_s_n11, 10, "11", crate::StaticLut::<11, 32>::zero());
    px!(c09t_prefix_s_n12, 10, "12", crate::StaticLut::<12, 64>::zero());
    macro_rules! wt {
        ($name:ident, $unw:expr, $digits:expr, $make:expr) => {
            #[kani::proof]
            #[kani::unwind($unw)]
            #[kani::stub(crate::operations::to_hex, stub_digits)]
            #[kani::stub(crate::operations::to_bin, stub_digits)]
            fn $name() {
                let d = $make;
                check_wrapped(&format!("{}", d), $digits);
                check_wrapped(&format!("{:x}", d), $digits);
                check_wrapped(&format!("{:b}", d), $digits);
                kani::cover!(true, "post-reached");
            }
        };
    }
    wt!(c09q_display_d_n1, 8, "1", crate::Lut::zero(1));
    wt!(c09q_display_s_n1, 8, "1", crate::StaticLut::<1, 1>::zero());
    wt!(c09q_display_d_n10, 18, "10", crate::Lut::zero(10));
    wt!(c09q_display_s_n10, 18, "10", crate::StaticLut::<10, 16>::zero());
    wt!(c09t_display_d_n12, 66, "12", crate::Lut::zero(12));
    wt!(c09t_display_s_n12, 66, "12", crate::StaticLut::<12, 64>::zero());
    wt!(c09t_display_d_n0, 8, "0", crate::Lut::zero(0));
    wt!(c09t_display_s_n7, 8, "7", crate::StaticLut::<7, 2>::zero());
    w!(c09q_wrap_hex_n0, 1, 0, "0", false);
    w!(c09q_wrap_hex_n3, 1, 3, "3", false);
    w!(c09q_wrap_hex_n7, 2, 7, "7", false);
    w!(c09q_wrap_hex_n9, 8, 9, "9", false);
    w!(c09q_wrap_hex_n10, 16, 10, "10", false);
    w!(c09q_wrap_hex_n12, 64, 12, "12", false);
    w!(c09t_wrap_hex_n11, 32, 11, "11", false);
    w!(c09q_wrap_bin_n2, 1, 2, "2", true);
    w!(c09q_wrap_bin_n10, 16, 10, "10", true);
    w!(c09t_wrap_bin_n12, 64, 12, "12", true);

    /// fill_hex on any UTF-8 string of LEN bytes
    fn parse<const LEN: usize>(n: usize) {
        let bytes: [u8; LEN] = kani::any();
        let w = width(n);
        let mut t = [kani::any::<u64>(); 1];
        // every ASCII string of this length (any 7-bit byte sequence is valid UTF-8); non-ASCII text: see parse_non_ascii
        let mut k = 0;
        while k < LEN {
            kani::assume(bytes[k] < 128);
            k += 1;
        }
        {
            let s = unsafe { std::str::from_utf8_unchecked(&bytes) };
            let r = fill_hex(n, &mut t, s);
            // the denoted value and the well-formedness of the text, computed by the harness
            let mut all_hex = true;
            let mut all_lower = true;
            let mut v = 0u64;
            let mut i = 0;
            while i < LEN {
                match digit_value(bytes[i]) {
                    Some(d) => {
                        v = (v << 4) | d;
                        if bytes[i] >= b'A' && bytes[i] <= b'F' {
                            all_lower = false;
                        }
                    }
                    None => all_hex = false,
                }
                i += 1;
            }
            let fits = v & !nmask(n) == 0;
            let well_formed = LEN == w && all_hex && fits;
            if r.is_ok() {
                // never a malformed table, never a malformed text
                assert!(well_formed);
                assert!(t[0] == v && wf(n, &t));
            }
            if well_formed && all_lower {
                assert!(r.is_ok());
            }
            if !well_formed {
                assert!(r.is_err());
            }
            kani::cover!(r.is_ok() || LEN != w, "post-reached");
            kani::cover!(r.is_err(), "err-reached");
        }
    }

    /// non-ASCII text is rejected (concrete strings of the right byte length containing multi-byte characters)
    fn parse_non_ascii(n: usize) {
        let mut t = [kani::any::<u64>(); 1];
        let cands: [&str; 6] = ["\u{e9}", "\u{e9}a", "1\u{e9}1", "\u{20ac}0", "\u{e9}\u{e9}", "\u{1f600}"];
        let mut i = 0;
        while i < 6 {
            assert!(fill_hex(n, &mut t, cands[i]).is_err());
            i += 1;
        }
        kani::cover!(true, "post-reached");
    }

    /// parsing two words: the first 16 digits are the most significant word
    fn parse_two_words() {
        let bytes: [u8; 32] = kani::any();
        let mut k = 0;
        while k < 32 {
            kani::assume(bytes[k] < 128);
            k += 1;
        }
        let s = unsafe { std::str::from_utf8_unchecked(&bytes) };
        let mut t = [kani::any::<u64>(); 2];
        let r = fill_hex(7, &mut t, s);
        let mut all_hex = true;
        let mut all_lower = true;
        let mut hi = 0u64;
        let mut lo = 0u64;
        let mut i = 0;
        while i < 32 {
            match digit_value(bytes[i]) {
                Some(d) => {
                    if i < 16 { hi = (hi << 4) | d; } else { lo = (lo << 4) | d; }
                    if bytes[i] >= b'A' && bytes[i] <= b'F' { all_lower = false; }
                }
                None => all_hex = false,
            }
            i += 1;
        }
        if r.is_ok() {
            assert!(all_hex && t[1] == hi && t[0] == lo);
        }
        if all_hex && all_lower {
            assert!(r.is_ok());
        }
        if !all_hex {
            assert!(r.is_err());
        }
        kani::cover!(r.is_ok(), "post-reached");
        kani::cover!(r.is_err(), "err-reached");
    }

    macro_rules! h {
        ($name:ident, $unw:expr, $body:expr) => {
            #[kani::proof]
            #[kani::unwind($unw)]
            fn $name() {
                $body;
            }
        };
    }
    h!(c09q_print_hex_n0, 5, print_hex(0));
    h!(c09q_print_hex_n1, 5, print_hex(1));
    h!(c09q_print_hex_n2, 5, print_hex(2));
    h!(c09q_print_hex_n3, 6, print_hex(3));
    h!(c09t_print_hex_n4, 8, print_hex(4));
    h!(c09t_print_hex_n5, 12, print_hex(5));
    h!(c09q_print_bin_n0, 5, print_bin(0));
    h!(c09q_print_bin_n1, 6, print_bin(1));
    h!(c09q_print_bin_n2, 8, print_bin(2));
    h!(c09t_print_bin_n3, 12, print_bin(3));
    h!(c09q_parse_n0_len0, 5, parse::<0>(0));
    h!(c09q_parse_n0_len1, 5, parse::<1>(0));
    h!(c09q_parse_n0_len2, 6, parse::<2>(0));
    h!(c09q_parse_n1_len1, 5, parse::<1>(1));
    h!(c09q_parse_n2_len1, 5, parse::<1>(2));
    h!(c09q_parse_n2_len2, 6, parse::<2>(2));
    h!(c09q_parse_n3_len1, 6, parse::<1>(3));
    h!(c09q_parse_n3_len2, 6, parse::<2>(3));
    h!(c09q_parse_n3_len3, 7, parse::<3>(3));
    h!(c09q_parse_n4_len3, 8, parse::<3>(4));
    h!(c09q_parse_n4_len4, 8, parse::<4>(4));
    h!(c09q_parse_n4_len5, 9, parse::<5>(4));
    h!(c09q_parse_non_ascii_n0, 8, parse_non_ascii(0));
    h!(c09q_parse_non_ascii_n3, 8, parse_non_ascii(3));
    h!(c09q_parse_non_ascii_n4, 8, parse_non_ascii(4));
    h!(c09q_parse_n5_len7, 12, parse::<7>(5));
    h!(c09q_parse_n5_len8, 12, parse::<8>(5));
    h!(c09q_parse_n5_len9, 13, parse::<9>(5));
    h!(c09q_parse_n6_len15, 20, parse::<15>(6));
    h!(c09q_parse_n6_len16, 20, parse::<16>(6));
    h!(c09q_parse_n6_len17, 21, parse::<17>(6));
    h!(c09q_parse_n7_two_words, 36, parse_two_words());
}
