//@target src/sop/ecube.rs
//@attr Ecube::value #[cfg_attr(kani, kani::ensures(|r: &bool| *r == (((self.vars & (mask as u32)).count_ones() & 1 == 1) != self.xnor)))]
// C13 - Ecube: contract triples on the real methods.  Every method here is loop-free (count_ones is an
// intrinsic), so a triple over a fully symbolic (vars: u32, xnor: bool) and a symbolic assignment is a complete
// proof over all 32 variables.
#[cfg(kani)]
impl kani::Arbitrary for Ecube {
    fn any() -> Self {
        Ecube { vars: kani::any(), xnor: kani::any() }
    }
}

#[cfg(kani)]
pub(crate) mod verif_c13 {
    use super::*;

    /// the property's definition, written bit by bit (no count_ones): parity of the selected variables
    pub fn par(x: u32) -> bool {
        let mut p = false;
        let mut i = 0;
        while i < 32 {
            p ^= (x >> i) & 1 == 1;
            i += 1;
        }
        p
    }
    pub fn sval(vars: u32, xnor: bool, m: u32) -> bool {
        par(vars & m) != xnor
    }
    /// a symbolic exclusive cube over variables 0..n
    pub fn any_over(n: usize) -> Ecube {
        let c: Ecube = kani::any();
        kani::assume(n >= 32 || c.vars >> n == 0);
        c
    }

    #[kani::proof_for_contract(Ecube::value)]
    fn c13q_value_contract() {
        let c: Ecube = kani::any();
        let m: usize = kani::any();
        let r = c.value(m);
        assert!(r == (((c.vars & (m as u32)).count_ones() & 1 == 1) != c.xnor));
    }

    #[kani::proof]
    #[kani::unwind(34)]
    fn c13q_value_def() {
        let c: Ecube = kani::any();
        let m: usize = kani::any();
        assert!(c.value(m) == sval(c.vars, c.xnor, m as u32));
        kani::cover!(c.value(m), "post-reached");
    }

    #[kani::proof]
    #[kani::unwind(34)]
    fn c13q_xor_not_sem() {
        let a: Ecube = kani::any();
        let b: Ecube = kani::any();
        let m: usize = kani::any();
        let r = a ^ b;
        assert!(r.value(m) == (a.value(m) != b.value(m)));
        assert!(sval(r.vars, r.xnor, m as u32) == (sval(a.vars, a.xnor, m as u32) != sval(b.vars, b.xnor, m as u32)));
        assert!((&a ^ b) == r && (&a ^ &b) == r && (a ^ &b) == r);
        let n = !a;
        assert!(n.value(m) == !a.value(m));
        assert!((!&a) == n);
        kani::cover!(r.value(m) && !n.value(m), "post-reached");
    }

    // modular use of the verified contract of `value`
    #[kani::proof]
    #[kani::stub_verified(Ecube::value)]
    fn c13q_xor_modular() {
        let a: Ecube = kani::any();
        let b: Ecube = kani::any();
        let m: usize = kani::any();
        // parity of a symmetric difference: pc(x ^ y) = pc(x) + pc(y) - 2 pc(x & y)
        let r = a ^ b;
        assert!(r.value(m) == (a.value(m) != b.value(m)));
        kani::cover!(true, "post-reached");
    }

    #[kani::proof]
    fn c13q_equality_semantic() {
        // structurally different exclusive cubes denote different functions: explicit distinguishing assignment
        let a: Ecube = kani::any();
        let b: Ecube = kani::any();
        if a != b {
            if a.vars != b.vars {
                // the lowest variable in exactly one of them, alone, against the all-zero assignment
                let d = a.vars ^ b.vars;
                let low = (d & d.wrapping_neg()) as usize;
                assert!((a.value(low) != b.value(low)) || (a.value(0) != b.value(0)));
            } else {
                assert!(a.value(0) != b.value(0));
            }
        } else {
            let m: usize = kani::any();
            assert!(a.value(m) == b.value(m));
        }
        kani::cover!(a != b && a.vars != b.vars, "post-reached");
    }

    #[kani::proof]
    fn c13q_constants_predicates() {
        let m: usize = kani::any();
        assert!(Ecube::one().value(m) && !Ecube::zero().value(m));
        assert!(Ecube::one().is_one() && !Ecube::one().is_zero() && Ecube::zero().is_zero() && !Ecube::zero().is_one());
        let c: Ecube = kani::any();
        if c.is_zero() {
            assert!(!c.value(m) && c == Ecube::zero());
        } else if c.is_one() {
            assert!(c.value(m) && c == Ecube::one());
        } else {
            // not constant: flipping the lowest variable changes the value
            let low = (c.vars & c.vars.wrapping_neg()) as usize;
            assert!(c.value(low) != c.value(0));
        }
        assert!(c.num_lits() == c.vars.count_ones() as usize);
        let l = c.num_lits();
        assert!(c.num_gates() == if l <= 1 { 0 } else { l - 1 });
        kani::cover!(!c.is_zero() && !c.is_one(), "post-reached");
    }

    #[kani::proof]
    fn c13q_literals() {
        let v: usize = kani::any();
        kani::assume(v < 32);
        let m: usize = kani::any();
        assert!(Ecube::nth_var(v).value(m) == ((m >> v) & 1 == 1));
        assert!(Ecube::nth_var_inv(v).value(m) == ((m >> v) & 1 == 0));
        assert!(Ecube::nth_var_inv(v) == !Ecube::nth_var(v));
        kani::cover!(Ecube::nth_var(v).value(m), "post-reached");
    }

    #[kani::proof]
    #[kani::unwind(5)]
    fn c13q_from_vars() {
        let p: [usize; 3] = kani::any();
        kani::assume(p[0] < 32 && p[1] < 32 && p[2] < 32);
        // from_vars ORs the variables together: a variable listed twice counts once
        let np: usize = kani::any();
        kani::assume(np <= 3);
        let x: bool = kani::any();
        let c = Ecube::from_vars(&p[..np], x);
        let mut vars = 0u32;
        let mut i = 0;
        while i < np {
            vars |= 1u32 << p[i];
            i += 1;
        }
        assert!(c.vars == vars && c.xnor == x);
        kani::cover!(np == 3 && p[0] == p[1], "post-reached");
    }

    macro_rules! implies_lut_harness {
        ($name:ident, $n:expr, $unw:expr) => {
            #[kani::proof]
            #[kani::unwind($unw)]
            fn $name() {
                const N: usize = $n;
                let w: u64 = kani::any();
                let mask: u64 = if N >= 6 { !0 } else { (1u64 << (1usize << N)) - 1 };
                let f = Lut::from_blocks(N, &[w & mask]);
                let c: Ecube = kani::any();
                kani::assume(c.vars >> N == 0);
                let r = c.implies_lut(&f);
                let m: usize = kani::any();
                kani::assume(m < (1 << N));
                if r {
                    assert!(!c.value(m) || (w >> m) & 1 == 1);
                } else {
                    let mut found = false;
                    let mut i = 0;
                    while i < (1 << N) {
                        if c.value(i) && (w >> i) & 1 == 0 {
                            found = true;
                        }
                        i += 1;
                    }
                    assert!(found);
                }
                kani::cover!(r && !c.is_zero(), "post-reached");
                kani::cover!(!r, "post-reached-2");
            }
        };
    }
    implies_lut_harness!(c13q_implies_lut_n2, 2, 6);
    implies_lut_harness!(c13t_implies_lut_n3, 3, 10);
    implies_lut_harness!(c13t_implies_lut_n4, 4, 18);
}
