//@target src/lut.rs
// C08 - ordering of `Lut` (first by number of variables, then numerically) and the `all_functions` iterator.
// This module is a child of lut.rs, so the iterator state (private fields) is an arbitrary well-formed
// table: this is the "one successor step on an arbitrary table" the property asks for, obtained by overlay.
#[cfg(kani)]
mod verif_c08d {
    use super::*;
    use crate::operations::verif_spec::*;
    use std::cmp::Ordering;

    fn big_cmp(a: &[u64], b: &[u64]) -> Ordering {
        let mut r = Ordering::Equal;
        let mut i = 0;
        while i < a.len() {
            if a[i] < b[i] {
                r = Ordering::Less;
            } else if a[i] > b[i] {
                r = Ordering::Greater;
            }
            i += 1;
        }
        r
    }

    /// same number of variables: numeric order; consistent with ==, partial_cmp and the comparison operators
    fn ord_same<const T: usize>(n: usize) {
        let ta: [u64; T] = any_table::<T>(n);
        let tb: [u64; T] = any_table::<T>(n);
        let a = Lut::from_blocks(n, &ta);
        let b = Lut::from_blocks(n, &tb);
        let r = a.cmp(&b);
        assert!(r == big_cmp(&ta, &tb));
        assert!(a.partial_cmp(&b) == Some(r));
        assert!((r == Ordering::Equal) == (a == b));
        assert!((a == b) == same(&ta, &tb));
        assert!((a < b) == (r == Ordering::Less) && (a >= b) == (r != Ordering::Less));
        assert!(b.cmp(&a) == r.reverse());
        kani::cover!(r == Ordering::Greater, "post-reached");
    }

    /// different numbers of variables: decided by the number of variables alone, whatever the contents
    fn ord_diff<const T1: usize, const T2: usize>(n1: usize, n2: usize) {
        let ta: [u64; T1] = any_table::<T1>(n1);
        let tb: [u64; T2] = any_table::<T2>(n2);
        let a = Lut::from_blocks(n1, &ta);
        let b = Lut::from_blocks(n2, &tb);
        let expect = if n1 < n2 { Ordering::Less } else { Ordering::Greater };
        assert!(a.cmp(&b) == expect);
        assert!(b.cmp(&a) == expect.reverse());
        assert!(a.partial_cmp(&b) == Some(expect));
        assert!(a != b);
        kani::cover!(true, "post-reached");
    }

    /// one step of the iterator from an arbitrary state
    fn iter_step<const T: usize>(n: usize) {
        let old: [u64; T] = any_table::<T>(n);
        let ok: bool = kani::any();
        let mut it = LutIterator { lut: Lut::from_blocks(n, &old), ok };
        let item = it.next();
        if !ok {
            assert!(item.is_none());
            assert!(!it.ok && same(it.lut.blocks(), &old));
            assert!(it.next().is_none());
        } else {
            let x = item.unwrap();
            assert!(x.num_vars() == n && same(x.blocks(), &old));
            // the state is now the numeric successor; ok records whether it wrapped
            let mask = nmask(n);
            let mut c = 0;
            while c < T && old[c] == mask {
                c += 1;
            }
            assert!(it.ok == (c < T));
            let w: usize = kani::any();
            kani::assume(w < T);
            let t = it.lut.blocks();
            if w < c {
                assert!(t[w] == 0);
            } else if w == c {
                assert!(t[w] == old[w] + 1);
            } else {
                assert!(t[w] == old[w]);
            }
            assert!(it.lut.num_vars() == n);
        }
        kani::cover!(ok && it.ok, "post-reached");
        kani::cover!(ok && !it.ok, "last-item-reached");
    }

    /// complete run: 2^(2^n) items, starting at zero, each the successor of the previous, then None forever
    fn iter_run(n: usize, count: usize) {
        let mut it = Lut::all_functions(n);
        let mut k: usize = 0;
        while k < count {
            let x = it.next();
            assert!(x.is_some());
            let x = x.unwrap();
            assert!(x.num_vars() == n && x.blocks().len() == 1 && x.blocks()[0] == k as u64);
            k += 1;
        }
        assert!(it.next().is_none());
        assert!(it.next().is_none());
        kani::cover!(true, "post-reached");
    }

    macro_rules! h {
        ($name:ident, $unw:expr, $body:expr) => {
            #[kani::proof]
            #[kani::unwind($unw)]
            fn $name() {
                $body;
            }
        };
    }
    h!(c08q_d_ord_n0, 10, ord_same::<1>(0));
    h!(c08t_d_ord_n1, 10, ord_same::<1>(1));
    h!(c08t_d_ord_n2, 10, ord_same::<1>(2));
    h!(c08q_d_ord_n3, 10, ord_same::<1>(3));
    h!(c08t_d_ord_n4, 10, ord_same::<1>(4));
    h!(c08t_d_ord_n5, 10, ord_same::<1>(5));
    h!(c08q_d_ord_n6, 10, ord_same::<1>(6));
    h!(c08q_d_ord_n7, 18, ord_same::<2>(7));
    h!(c08t_d_ord_n8, 34, ord_same::<4>(8));
    h!(c08q_d_ord_n9, 66, ord_same::<8>(9));
    h!(c08t_d_ord_n10, 130, ord_same::<16>(10));
    h!(c08t_d_ord_n11, 258, ord_same::<32>(11));
    h!(c08t_d_ord_n12, 514, ord_same::<64>(12));
    h!(c08q_d_orddiff_0_1, 9, ord_diff::<1, 1>(0, 1));
    h!(c08q_d_orddiff_5_2, 9, ord_diff::<1, 1>(5, 2));
    h!(c08q_d_orddiff_6_7, 9, ord_diff::<1, 2>(6, 7));
    h!(c08q_d_orddiff_8_3, 9, ord_diff::<4, 1>(8, 3));
    h!(c08t_d_orddiff_7_8, 9, ord_diff::<2, 4>(7, 8));
    h!(c08t_d_orddiff_9_8, 10, ord_diff::<8, 4>(9, 8));
    h!(c08t_d_orddiff_12_0, 66, ord_diff::<64, 1>(12, 0));
    h!(c08t_d_orddiff_4_12, 66, ord_diff::<1, 64>(4, 12));
    h!(c08q_d_step_n0, 9, iter_step::<1>(0));
    h!(c08t_d_step_n1, 9, iter_step::<1>(1));
    h!(c08q_d_step_n4, 9, iter_step::<1>(4));
    h!(c08t_d_step_n5, 9, iter_step::<1>(5));
    h!(c08q_d_step_n6, 9, iter_step::<1>(6));
    h!(c08q_d_step_n7, 9, iter_step::<2>(7));
    h!(c08t_d_step_n8, 9, iter_step::<4>(8));
    h!(c08q_d_step_n9, 10, iter_step::<8>(9));
    h!(c08t_d_step_n10, 18, iter_step::<16>(10));
    h!(c08t_d_step_n12, 66, iter_step::<64>(12));
    h!(c08q_d_run_n0, 9, iter_run(0, 2));
    h!(c08q_d_run_n1, 9, iter_run(1, 4));
    h!(c08q_d_run_n2, 18, iter_run(2, 16));
    h!(c08t_d_run_n3, 258, iter_run(3, 256));
}
