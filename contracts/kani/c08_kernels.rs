//@target src/operations.rs
// C08 - ordering and successor, kernel level.  Contract triples on the real `cmp` and `next_inplace`:
//   cmp(t1, t2)  == comparison of the tables as 64*L-bit unsigned numbers, most significant word = last index,
//                   computed by the harness with an index loop (no iterator adaptors);
//   next_inplace == numeric successor modulo 2^(2^n): words below the cut wrap to zero, the word at the cut is
//                   incremented, the words above the cut are unchanged; returns false exactly on wrap-around.
// Loop bounds are fixed by the length, so each triple is complete for its length (all contents).
#[cfg(kani)]
mod verif_c08k {
    use super::verif_spec::*;
    use super::{cmp, next_inplace};
    use std::cmp::Ordering;

    fn any_index(len: usize) -> usize {
        let w: usize = kani::any();
        kani::assume(w < len);
        w
    }

    /// big-number comparison, most significant word last
    fn big_cmp(a: &[u64], b: &[u64]) -> Ordering {
        let mut r = Ordering::Equal;
        let mut i = 0;
        // scanning upward and letting a more significant difference override a less significant one
        while i < a.len() {
            if a[i] < b[i] {
                r = Ordering::Less;
            } else if a[i] > b[i] {
                r = Ordering::Greater;
            }
            i += 1;
        }
        r
    }

    fn cmp_k<const T: usize>() {
        let a: [u64; T] = kani::any();
        let b: [u64; T] = kani::any();
        let r = cmp(&a, &b);
        assert!(r == big_cmp(&a, &b));
        assert!((r == Ordering::Equal) == same(&a, &b));
        // antisymmetry on the same pair
        assert!(cmp(&b, &a) == r.reverse());
        kani::cover!(r == Ordering::Less, "post-reached");
    }

    /// transitivity and totality on a symbolic triple
    fn cmp_trans<const T: usize>() {
        let a: [u64; T] = kani::any();
        let b: [u64; T] = kani::any();
        let c: [u64; T] = kani::any();
        let ab = cmp(&a, &b);
        let bc = cmp(&b, &c);
        let ac = cmp(&a, &c);
        if ab != Ordering::Greater && bc != Ordering::Greater {
            assert!(ac != Ordering::Greater);
            if ab == Ordering::Less || bc == Ordering::Less {
                assert!(ac == Ordering::Less);
            }
        }
        kani::cover!(ab == Ordering::Less && bc == Ordering::Less, "post-reached");
    }

    fn next_k<const T: usize>(n: usize) {
        let old: [u64; T] = any_table::<T>(n);
        let mut t = old;
        let r = next_inplace(n, &mut t);
        let mask = nmask(n);
        let mut c = 0;
        while c < T && old[c] == mask {
            c += 1;
        }
        assert!(r == (c < T));
        let w = any_index(T);
        if w < c {
            assert!(t[w] == 0);
        } else if w == c {
            assert!(t[w] == old[w] + 1);
        } else {
            assert!(t[w] == old[w]);
        }
        assert!(wf(n, &t));
        // strictly greater in the library's own order unless it wrapped
        if r {
            assert!(cmp(&old, &t) == Ordering::Less);
        }
        kani::cover!(r && c > 0, "post-reached");
        kani::cover!(!r, "wrap-reached");
    }
    /// single-word tables have no carry cover
    fn next_k1(n: usize) {
        let old: [u64; 1] = any_table::<1>(n);
        let mut t = old;
        let r = next_inplace(n, &mut t);
        if old[0] == nmask(n) {
            assert!(!r && t[0] == 0);
        } else {
            assert!(r && t[0] == old[0] + 1);
            assert!(cmp(&old, &t) == Ordering::Less);
        }
        assert!(wf(n, &t));
        kani::cover!(r, "post-reached");
        kani::cover!(!r, "wrap-reached");
    }

    macro_rules! h {
        ($name:ident, $unw:expr, $body:expr) => {
            #[kani::proof]
            #[kani::unwind($unw)]
            fn $name() {
                $body;
            }
        };
    }
    h!(c08q_k_cmp_len1, 9, cmp_k::<1>());
    h!(c08q_k_cmp_len2, 9, cmp_k::<2>());
    h!(c08q_k_cmp_len4, 9, cmp_k::<4>());
    h!(c08t_k_cmp_len8, 10, cmp_k::<8>());
    h!(c08q_k_cmp_len16, 18, cmp_k::<16>());
    h!(c08t_k_cmp_len32, 34, cmp_k::<32>());
    h!(c08t_k_cmp_len64, 66, cmp_k::<64>());
    h!(c08t_k_cmp_len128, 130, cmp_k::<128>());
    h!(c08t_k_cmp_len256, 258, cmp_k::<256>());
    h!(c08q_k_trans_len1, 9, cmp_trans::<1>());
    h!(c08q_k_trans_len2, 9, cmp_trans::<2>());
    h!(c08t_k_trans_len4, 9, cmp_trans::<4>());
    h!(c08t_k_trans_len8, 10, cmp_trans::<8>());
    h!(c08t_k_trans_len16, 18, cmp_trans::<16>());
    h!(c08t_k_trans_len64, 66, cmp_trans::<64>());
    h!(c08q_k_next_n0, 9, next_k1(0));
    h!(c08q_k_next_n1, 9, next_k1(1));
    h!(c08t_k_next_n2, 9, next_k1(2));
    h!(c08t_k_next_n3, 9, next_k1(3));
    h!(c08t_k_next_n4, 9, next_k1(4));
    h!(c08q_k_next_n5, 9, next_k1(5));
    h!(c08q_k_next_n6, 9, next_k1(6));
    h!(c08q_k_next_n7, 9, next_k::<2>(7));
    h!(c08q_k_next_n8, 9, next_k::<4>(8));
    h!(c08q_k_next_n9, 10, next_k::<8>(9));
    h!(c08t_k_next_n10, 18, next_k::<16>(10));
    h!(c08t_k_next_n11, 34, next_k::<32>(11));
    h!(c08t_k_next_n12, 66, next_k::<64>(12));
}
