//@target src/sop/cube.rs
//@attr Cube::and #[cfg_attr(kani, kani::ensures(|r: &Cube| verif_c12::cwf(r) && ((a.pos | b.pos) & (a.neg | b.neg) != 0 || (r.pos == (a.pos | b.pos) && r.neg == (a.neg | b.neg))) && ((a.pos | b.pos) & (a.neg | b.neg) == 0 || (r.pos == !0u32 && r.neg == !0u32))))]
//@attr Cube::implies #[cfg_attr(kani, kani::ensures(|r: &bool| *r == ((o.pos & !self.pos) == 0 && (o.neg & !self.neg) == 0)))]
// C12 - cube algebra. Contract triples on the real `Cube` methods; every method here is loop-free,
// so a triple over fully symbolic 32-bit masks is a complete proof (all 32 variables, all assignments).
#[cfg(kani)]
impl kani::Arbitrary for Cube {
    fn any() -> Self {
        Cube { pos: kani::any(), neg: kani::any() }
    }
}

#[cfg(kani)]
pub(crate) mod verif_c12 {
    use super::*;

    /// representation invariant: the only contradictory cube is the canonical zero
    pub fn cwf(c: &Cube) -> bool {
        (c.pos & c.neg) == 0 || (c.pos == !0u32 && c.neg == !0u32)
    }

    /// the property's definition of evaluation, written without the library
    pub fn sval(pos: u32, neg: u32, m: u32) -> bool {
        (m & pos) == pos && (m & neg) == 0
    }

    fn any_wf() -> Cube {
        let c: Cube = kani::any();
        kani::assume(cwf(&c));
        c
    }

    #[kani::proof]
    fn c12q_value_def() {
        let c: Cube = kani::any();
        let m: usize = kani::any();
        assert!(c.value(m) == sval(c.pos, c.neg, m as u32));
        kani::cover!(c.value(m), "post-reached");
    }

    #[kani::proof_for_contract(Cube::and)]
    fn c12q_and_contract() {
        let a: Cube = kani::any();
        let b: Cube = kani::any();
        let r = Cube::and(a, b);
        // the same postcondition, stated in the harness so that a native replay observes it
        let conflict = (a.pos | b.pos) & (a.neg | b.neg) != 0;
        assert!(cwf(&r) && if conflict { r.pos == !0u32 && r.neg == !0u32 } else { r.pos == (a.pos | b.pos) && r.neg == (a.neg | b.neg) });
    }

    #[kani::proof_for_contract(Cube::implies)]
    fn c12q_implies_contract() {
        let a: Cube = kani::any();
        let b: Cube = kani::any();
        let r = a.implies(b);
        assert!(r == ((b.pos & !a.pos) == 0 && (b.neg & !a.neg) == 0));
    }

    #[kani::proof]
    fn c12q_and_sem() {
        let a: Cube = kani::any();
        let b: Cube = kani::any();
        let m: usize = kani::any();
        let r = Cube::and(a, b);
        assert!(cwf(&r));
        assert!(r.value(m) == (a.value(m) && b.value(m)));
        assert!(sval(r.pos, r.neg, m as u32) == (sval(a.pos, a.neg, m as u32) && sval(b.pos, b.neg, m as u32)));
        // the four operator forms are the same function
        assert!((a & b) == r && (&a & b) == r && (&a & &b) == r && (a & &b) == r);
        kani::cover!(r.value(m), "post-reached");
    }

    // a user of `and` that only sees its contract (modular use of the verified contract)
    #[kani::proof]
    #[kani::stub_verified(Cube::and)]
    fn c12q_and3_wf_modular() {
        let a: Cube = kani::any();
        let b: Cube = kani::any();
        let c: Cube = kani::any();
        let r = Cube::and(Cube::and(a, b), c);
        assert!(cwf(&r));
        let m: u32 = kani::any();
        assert!(sval(r.pos, r.neg, m) == (sval(a.pos, a.neg, m) && sval(b.pos, b.neg, m) && sval(c.pos, c.neg, m)));
        kani::cover!(true, "post-reached");
    }

    #[kani::proof]
    fn c12q_constructors() {
        assert!(cwf(&Cube::one()) && cwf(&Cube::zero()));
        let m: usize = kani::any();
        assert!(Cube::one().value(m));
        assert!(!Cube::zero().value(m));
        assert!(Cube::one().is_one() && !Cube::one().is_zero());
        assert!(Cube::zero().is_zero() && !Cube::zero().is_one());
        let v: usize = kani::any();
        kani::assume(v < 32);
        let p = Cube::nth_var(v);
        let n = Cube::nth_var_inv(v);
        assert!(cwf(&p) && cwf(&n));
        assert!(p.value(m) == ((m >> v) & 1 == 1));
        assert!(n.value(m) == ((m >> v) & 1 == 0));
        let pos: u32 = kani::any();
        let neg: u32 = kani::any();
        let f = Cube::from_mask(pos, neg);
        assert!(cwf(&f));
        assert!(f.value(m) == sval(pos, neg, m as u32));
        kani::cover!(f.value(m), "post-reached");
    }

    #[kani::proof]
    fn c12q_minterm() {
        let n: usize = kani::any();
        kani::assume(n < 32);
        let k: usize = kani::any();
        let m: usize = kani::any();
        let c = Cube::minterm(n, k);
        assert!(cwf(&c) && !c.is_zero());
        let low = (1u32 << n) - 1;
        // true exactly on the assignment k (over the n variables), independent of the other variables
        assert!(c.value(m) == ((m as u32) & low == (k as u32) & low));
        kani::cover!(c.value(m), "post-reached");
    }

    #[kani::proof]
    #[kani::unwind(4)]
    fn c12q_from_vars() {
        let p: [usize; 2] = kani::any();
        let q: [usize; 2] = kani::any();
        kani::assume(p[0] < 32 && p[1] < 32 && q[0] < 32 && q[1] < 32);
        let np: usize = kani::any();
        let nq: usize = kani::any();
        kani::assume(np <= 2 && nq <= 2);
        let c = Cube::from_vars(&p[..np], &q[..nq]);
        assert!(cwf(&c));
        let m: usize = kani::any();
        let mut expect = true;
        let mut i = 0;
        while i < np {
            expect = expect && ((m >> p[i]) & 1 == 1);
            i += 1;
        }
        i = 0;
        while i < nq {
            expect = expect && ((m >> q[i]) & 1 == 0);
            i += 1;
        }
        assert!(c.value(m) == expect);
        kani::cover!(c.value(m), "post-reached");
    }

    #[kani::proof]
    fn c12q_implies_sem() {
        let a = any_wf();
        let b = any_wf();
        let m: usize = kani::any();
        if a.implies(b) {
            // every assignment satisfying a satisfies b
            assert!(!a.value(m) || b.value(m));
        } else {
            // explicit witness: satisfies a, falsifies b
            let w = (a.pos | (b.neg & !a.neg)) as usize;
            assert!(a.value(w) && !b.value(w));
        }
        kani::cover!(a.implies(b) && !a.is_zero(), "post-reached");
        kani::cover!(!a.implies(b), "post-reached-2");
    }

    #[kani::proof]
    fn c12q_intersects_sem() {
        let a = any_wf();
        let b = any_wf();
        let m: usize = kani::any();
        if a.intersects(b) {
            let w = (a.pos | b.pos) as usize;
            assert!(a.value(w) && b.value(w));
        } else {
            assert!(!(a.value(m) && b.value(m)));
        }
        kani::cover!(a.intersects(b), "post-reached");
        kani::cover!(!a.intersects(b) && !a.is_zero() && !b.is_zero(), "post-reached-2");
    }

    #[kani::proof]
    fn c12q_equality_semantic() {
        // structurally different well-formed cubes denote different functions
        let a = any_wf();
        let b = any_wf();
        if a != b {
            // one of the two implications fails, and c12q_implies_sem gives the separating assignment
            assert!(!a.implies(b) || !b.implies(a));
            let w1 = (a.pos | (b.neg & !a.neg)) as usize;
            let w2 = (b.pos | (a.neg & !b.neg)) as usize;
            assert!((a.value(w1) != b.value(w1)) || (a.value(w2) != b.value(w2)));
        }
        kani::cover!(a != b, "post-reached");
    }

    #[kani::proof]
    fn c12q_predicates_counts() {
        let c = any_wf();
        let m: usize = kani::any();
        if c.is_zero() {
            assert!(!c.value(m));
            assert!(c == Cube::zero());
            assert!(c.num_lits() == 0);
        } else {
            assert!(c.value(c.pos as usize));
            assert!(c.num_lits() == (c.pos.count_ones() + c.neg.count_ones()) as usize);
        }
        if c.is_one() {
            assert!(c.value(m));
        } else if !c.is_zero() {
            let w = if c.pos != 0 { 0usize } else { c.neg as usize };
            assert!(!c.value(w));
        }
        assert!(c.is_constant() == (c.is_zero() || c.is_one()));
        let l = c.num_lits();
        assert!(c.num_gates() == if l <= 1 { 0 } else { l - 1 });
        kani::cover!(!c.is_zero() && !c.is_one(), "post-reached");
    }

    fn lut_of(n: usize, w: u64) -> Lut {
        let mask: u64 = if n >= 6 { !0 } else { (1u64 << (1usize << n)) - 1 };
        Lut::from_blocks(n, &[w & mask])
    }

    macro_rules! implies_lut_harness {
        ($name:ident, $n:expr, $unw:expr) => {
            #[kani::proof]
            #[kani::unwind($unw)]
            fn $name() {
                const N: usize = $n;
                let w: u64 = kani::any();
                let f = lut_of(N, w);
                let c = any_wf();
                kani::assume(c.is_zero() || ((c.pos | c.neg) >> N) == 0);
                let r = c.implies_lut(&f);
                let m: usize = kani::any();
                kani::assume(m < (1 << N));
                if r {
                    assert!(!c.value(m) || (w >> m) & 1 == 1);
                } else {
                    // some assignment of the cube is not in f: checked by exhaustive search in the harness
                    let mut found = false;
                    let mut i = 0;
                    while i < (1 << N) {
                        if sval(c.pos, c.neg, i as u32) && (w >> i) & 1 == 0 {
                            found = true;
                        }
                        i += 1;
                    }
                    assert!(found);
                }
                kani::cover!(r && !c.is_zero(), "post-reached");
                kani::cover!(!r, "post-reached-2");
            }
        };
    }
    implies_lut_harness!(c12q_implies_lut_n2, 2, 6);
    implies_lut_harness!(c12q_implies_lut_n3, 3, 10);
    implies_lut_harness!(c12t_implies_lut_n4, 4, 18);
    implies_lut_harness!(c12t_implies_lut_n0, 0, 3);
    implies_lut_harness!(c12t_implies_lut_n1, 1, 4);
}
