//@target src/static_lut.rs
// C08 - ordering of `StaticLut` (numeric) and its `all_functions` iterator; child module of static_lut.rs so
// that the iterator state is an arbitrary well-formed table.
#[cfg(kani)]
mod verif_c08s {
    use super::*;
    use crate::operations::verif_spec::*;
    use std::cmp::Ordering;

    fn big_cmp(a: &[u64], b: &[u64]) -> Ordering {
        let mut r = Ordering::Equal;
        let mut i = 0;
        while i < a.len() {
            if a[i] < b[i] {
                r = Ordering::Less;
            } else if a[i] > b[i] {
                r = Ordering::Greater;
            }
            i += 1;
        }
        r
    }

    fn ord_s<const N: usize, const T: usize>() {
        let ta: [u64; T] = any_table::<T>(N);
        let tb: [u64; T] = any_table::<T>(N);
        let a = StaticLut::<N, T>::from_blocks(&ta);
        let b = StaticLut::<N, T>::from_blocks(&tb);
        let r = a.cmp(&b);
        assert!(r == big_cmp(&ta, &tb));
        assert!(a.partial_cmp(&b) == Some(r));
        assert!((r == Ordering::Equal) == (a == b));
        assert!((a == b) == same(&ta, &tb));
        assert!((a < b) == (r == Ordering::Less) && (a >= b) == (r != Ordering::Less));
        assert!(b.cmp(&a) == r.reverse());
        kani::cover!(r == Ordering::Greater, "post-reached");
    }

    fn iter_step_s<const N: usize, const T: usize>() {
        let old: [u64; T] = any_table::<T>(N);
        let ok: bool = kani::any();
        let mut it = StaticLutIterator::<N, T> { lut: StaticLut::<N, T>::from_blocks(&old), ok };
        let item = it.next();
        if !ok {
            assert!(item.is_none());
            assert!(!it.ok && same(it.lut.blocks(), &old));
            assert!(it.next().is_none());
        } else {
            let x = item.unwrap();
            assert!(same(x.blocks(), &old));
            let mask = nmask(N);
            let mut c = 0;
            while c < T && old[c] == mask {
                c += 1;
            }
            assert!(it.ok == (c < T));
            let w: usize = kani::any();
            kani::assume(w < T);
            let t = it.lut.blocks();
            if w < c {
                assert!(t[w] == 0);
            } else if w == c {
                assert!(t[w] == old[w] + 1);
            } else {
                assert!(t[w] == old[w]);
            }
        }
        kani::cover!(ok && it.ok, "post-reached");
        kani::cover!(ok && !it.ok, "last-item-reached");
    }

    fn iter_run_s<const N: usize>(count: usize) {
        let mut it = StaticLut::<N, 1>::all_functions();
        let mut k: usize = 0;
        while k < count {
            let x = it.next();
            assert!(x.is_some());
            assert!(x.unwrap().blocks()[0] == k as u64);
            k += 1;
        }
        assert!(it.next().is_none());
        assert!(it.next().is_none());
        kani::cover!(true, "post-reached");
    }

    macro_rules! h {
        ($name:ident, $unw:expr, $body:expr) => {
            #[kani::proof]
            #[kani::unwind($unw)]
            fn $name() {
                $body;
            }
        };
    }
    h!(c08q_s_ord_n0, 10, ord_s::<0, 1>());
    h!(c08t_s_ord_n1, 10, ord_s::<1, 1>());
    h!(c08t_s_ord_n2, 10, ord_s::<2, 1>());
    h!(c08t_s_ord_n3, 10, ord_s::<3, 1>());
    h!(c08q_s_ord_n4, 10, ord_s::<4, 1>());
    h!(c08t_s_ord_n5, 10, ord_s::<5, 1>());
    h!(c08q_s_ord_n6, 10, ord_s::<6, 1>());
    h!(c08q_s_ord_n7, 18, ord_s::<7, 2>());
    h!(c08q_s_ord_n8, 34, ord_s::<8, 4>());
    h!(c08t_s_ord_n9, 66, ord_s::<9, 8>());
    h!(c08t_s_ord_n10, 130, ord_s::<10, 16>());
    h!(c08t_s_ord_n11, 258, ord_s::<11, 32>());
    h!(c08t_s_ord_n12, 514, ord_s::<12, 64>());
    h!(c08q_s_step_n0, 9, iter_step_s::<0, 1>());
    h!(c08q_s_step_n3, 9, iter_step_s::<3, 1>());
    h!(c08t_s_step_n5, 9, iter_step_s::<5, 1>());
    h!(c08q_s_step_n6, 9, iter_step_s::<6, 1>());
    h!(c08q_s_step_n7, 9, iter_step_s::<7, 2>());
    h!(c08q_s_step_n8, 9, iter_step_s::<8, 4>());
    h!(c08t_s_step_n9, 10, iter_step_s::<9, 8>());
    h!(c08t_s_step_n10, 18, iter_step_s::<10, 16>());
    h!(c08t_s_step_n11, 34, iter_step_s::<11, 32>());
    h!(c08t_s_step_n12, 66, iter_step_s::<12, 64>());
    h!(c08q_s_run_n0, 9, iter_run_s::<0>(2));
    h!(c08q_s_run_n1, 9, iter_run_s::<1>(4));
    h!(c08q_s_run_n2, 18, iter_run_s::<2>(16));
    h!(c08t_s_run_n3, 258, iter_run_s::<3>(256));
}
