//@target src/operations.rs
// Specification vocabulary for the Kani triples, written independently of the library
// (plain index arithmetic; none of the library's mask tables is used).
#[cfg(kani)]
#[allow(dead_code)]
pub(crate) mod verif_spec {
    pub const fn tsize(n: usize) -> usize {
        if n <= 6 { 1 } else { 1 << (n - 6) }
    }
    pub fn nmask(n: usize) -> u64 {
        if n >= 6 { !0u64 } else { (1u64 << (1u32 << n)) - 1 }
    }
    /// value of the function on assignment m
    pub fn bit(t: &[u64], m: usize) -> bool {
        (t[m / 64] >> (m % 64)) & 1 == 1
    }
    /// representation invariant: right number of blocks, no bit at a position >= 2^n
    pub fn wf(n: usize, t: &[u64]) -> bool {
        t.len() == tsize(n) && (n >= 6 || t[0] & !nmask(n) == 0)
    }
    /// assignment with bits i and j exchanged
    pub fn swapbits(m: usize, i: usize, j: usize) -> usize {
        let bi = (m >> i) & 1;
        let bj = (m >> j) & 1;
        (m & !(1 << i) & !(1 << j)) | (bj << i) | (bi << j)
    }
    pub fn popcount(m: usize) -> usize {
        let mut c = 0;
        let mut x = m;
        while x != 0 {
            c += x & 1;
            x >>= 1;
        }
        c
    }
    /// a symbolic well-formed table of N variables in T words
    pub fn any_table<const T: usize>(n: usize) -> [u64; T] {
        let mut t: [u64; T] = kani::any();
        if n < 6 {
            t[0] &= nmask(n);
        }
        t
    }
    /// word-wise equality (an index loop: `==` on slices goes through a byte-wise memcmp)
    pub fn same(a: &[u64], b: &[u64]) -> bool {
        if a.len() != b.len() {
            return false;
        }
        let mut i = 0;
        let mut r = true;
        while i < a.len() {
            r = r && a[i] == b[i];
            i += 1;
        }
        r
    }
    pub fn any_assignment(n: usize) -> usize {
        let m: usize = kani::any();
        kani::assume(m < (1usize << n));
        m
    }
}
