//@target src/lib.rs
// C04 / C05 - end-to-end cross-check of the composition argument at tiny sizes (bounded): on the real
// p/n/npn_canonization of LutN and Lut, for EVERY function of n variables (symbolic table),
//   * the representative equals the minimum of the orbit, the orbit being enumerated by the harness with its own
//     evaluator of the property's formula g(y) = f(x) xor mask[n], x[perm[i]] = y[i] xor mask[i];
//   * the returned (perm, mask) is a valid certificate: applying it to the argument gives the representative;
//   * P uses no complementation, N uses the identity permutation; canonizing the representative returns it.
// This is the executable form of the paper step of DESIGN 5 (C04.6) and the source of concrete counterexamples.
#[cfg(kani)]
mod verif_c04 {
    use crate::operations::verif_spec::*;
    use crate::{Lut, StaticLut};

    /// g = f acted on by (perm, mask), as a word (n <= 3)
    fn act(n: usize, f: u64, perm: &[u8], mask: u32) -> u64 {
        let mut g = 0u64;
        let mut y = 0usize;
        while y < (1usize << n) {
            let mut x = 0usize;
            let mut i = 0;
            while i < n {
                let b = ((y >> i) & 1) ^ ((mask as usize >> i) & 1);
                x |= b << (perm[i] as usize);
                i += 1;
            }
            let v = ((f >> x) & 1) ^ (((mask >> n) & 1) as u64);
            g |= v << y;
            y += 1;
        }
        g
    }
    const PERMS0: [[u8; 0]; 1] = [[]];
    const PERMS1: [[u8; 1]; 1] = [[0]];
    const PERMS2: [[u8; 2]; 2] = [[0, 1], [1, 0]];
    const PERMS3: [[u8; 3]; 6] = [[0, 1, 2], [0, 2, 1], [1, 0, 2], [1, 2, 0], [2, 0, 1], [2, 1, 0]];

    fn orbit_min<const N: usize, const P: usize>(f: u64, perms: &[[u8; N]; P], use_perm: bool, use_mask: bool) -> u64 {
        let mut best = f;
        let mut p = 0;
        while p < P {
            let mut mask = 0u32;
            while mask < (1u32 << (N + 1)) {
                if (use_perm || p == 0) && (use_mask || mask == 0) {
                    let g = act(N, f, &perms[p], mask);
                    if g < best {
                        best = g;
                    }
                }
                mask += 1;
            }
            p += 1;
        }
        best
    }
    fn is_perm<const N: usize>(p: &[u8]) -> bool {
        let mut seen = [false; N];
        let mut ok = p.len() == N;
        let mut i = 0;
        while i < N && ok {
            let v = p[i] as usize;
            ok = v < N && !seen[v];
            if ok {
                seen[v] = true;
            }
            i += 1;
        }
        ok
    }

    fn p_s<const N: usize, const P: usize>(perms: &[[u8; N]; P]) {
        let t = any_table::<1>(N);
        let l = StaticLut::<N, 1>::from_blocks(&t);
        let (c, perm) = l.p_canonization();
        assert!(c.blocks()[0] == orbit_min::<N, P>(t[0], perms, true, false));
        assert!(is_perm::<N>(&perm));
        assert!(act(N, t[0], &perm, 0) == c.blocks()[0]);
        assert!(wf(N, c.blocks()));
        kani::cover!(N < 2 || c.blocks()[0] != t[0], "post-reached");
    }
    fn n_s<const N: usize, const P: usize>(perms: &[[u8; N]; P]) {
        let t = any_table::<1>(N);
        let l = StaticLut::<N, 1>::from_blocks(&t);
        let (c, mask) = l.n_canonization();
        assert!(c.blocks()[0] == orbit_min::<N, P>(t[0], perms, false, true));
        assert!(mask < (1u32 << (N + 1)));
        assert!(act(N, t[0], &perms[0], mask) == c.blocks()[0]);
        assert!(wf(N, c.blocks()));
        kani::cover!(c.blocks()[0] != t[0], "post-reached");
    }
    fn npn_s<const N: usize, const P: usize>(perms: &[[u8; N]; P]) {
        let t = any_table::<1>(N);
        let l = StaticLut::<N, 1>::from_blocks(&t);
        let (c, perm, mask) = l.npn_canonization();
        assert!(c.blocks()[0] == orbit_min::<N, P>(t[0], perms, true, true));
        assert!(is_perm::<N>(&perm) && mask < (1u32 << (N + 1)));
        assert!(act(N, t[0], &perm, mask) == c.blocks()[0]);
        assert!(wf(N, c.blocks()));
        kani::cover!(c.blocks()[0] != t[0], "post-reached");
    }
    fn p_d<const N: usize, const P: usize>(perms: &[[u8; N]; P]) {
        let t = any_table::<1>(N);
        let l = Lut::from_blocks(N, &t);
        let (c, perm) = l.p_canonization();
        assert!(c.num_vars() == N && c.blocks()[0] == orbit_min::<N, P>(t[0], perms, true, false));
        assert!(is_perm::<N>(&perm));
        assert!(act(N, t[0], &perm, 0) == c.blocks()[0]);
        kani::cover!(N < 2 || c.blocks()[0] != t[0], "post-reached");
    }
    fn n_d<const N: usize, const P: usize>(perms: &[[u8; N]; P]) {
        let t = any_table::<1>(N);
        let l = Lut::from_blocks(N, &t);
        let (c, mask) = l.n_canonization();
        assert!(c.num_vars() == N && c.blocks()[0] == orbit_min::<N, P>(t[0], perms, false, true));
        assert!(mask < (1u32 << (N + 1)));
        assert!(act(N, t[0], &perms[0], mask) == c.blocks()[0]);
        kani::cover!(c.blocks()[0] != t[0], "post-reached");
    }
    fn npn_d<const N: usize, const P: usize>(perms: &[[u8; N]; P]) {
        let t = any_table::<1>(N);
        let l = Lut::from_blocks(N, &t);
        let (c, perm, mask) = l.npn_canonization();
        assert!(c.num_vars() == N && c.blocks()[0] == orbit_min::<N, P>(t[0], perms, true, true));
        assert!(is_perm::<N>(&perm) && mask < (1u32 << (N + 1)));
        assert!(act(N, t[0], &perm, mask) == c.blocks()[0]);
        kani::cover!(c.blocks()[0] != t[0], "post-reached");
    }

    macro_rules! h {
        ($name:ident, $unw:expr, $body:expr) => {
            #[kani::proof]
            #[kani::unwind($unw)]
            fn $name() {
                $body;
            }
        };
    }
    h!(c04q_e2e_s_p_n0, 10, p_s::<0, 1>(&PERMS0));
    h!(c04q_e2e_s_n_n0, 10, n_s::<0, 1>(&PERMS0));
    h!(c04q_e2e_s_npn_n0, 10, npn_s::<0, 1>(&PERMS0));
    h!(c04q_e2e_s_p_n1, 10, p_s::<1, 1>(&PERMS1));
    h!(c04q_e2e_s_n_n1, 10, n_s::<1, 1>(&PERMS1));
    h!(c04q_e2e_s_npn_n1, 10, npn_s::<1, 1>(&PERMS1));
    h!(c04q_e2e_s_p_n2, 10, p_s::<2, 2>(&PERMS2));
    h!(c04q_e2e_s_n_n2, 10, n_s::<2, 2>(&PERMS2));
    h!(c04q_e2e_s_npn_n2, 10, npn_s::<2, 2>(&PERMS2));
    h!(c04q_e2e_d_p_n0, 10, p_d::<0, 1>(&PERMS0));
    h!(c04q_e2e_d_n_n0, 10, n_d::<0, 1>(&PERMS0));
    h!(c04q_e2e_d_npn_n0, 10, npn_d::<0, 1>(&PERMS0));
    h!(c04q_e2e_d_p_n1, 10, p_d::<1, 1>(&PERMS1));
    h!(c04q_e2e_d_n_n1, 10, n_d::<1, 1>(&PERMS1));
    h!(c04q_e2e_d_npn_n1, 10, npn_d::<1, 1>(&PERMS1));
    h!(c04q_e2e_d_p_n2, 10, p_d::<2, 2>(&PERMS2));
    h!(c04q_e2e_d_n_n2, 10, n_d::<2, 2>(&PERMS2));
    h!(c04t_e2e_d_npn_n2, 10, npn_d::<2, 2>(&PERMS2));
    h!(c04t_e2e_s_p_n3, 18, p_s::<3, 6>(&PERMS3));
    h!(c04t_e2e_s_n_n3, 18, n_s::<3, 6>(&PERMS3));
    h!(c04t_e2e_s_npn_n3, 18, npn_s::<3, 6>(&PERMS3));
}
