//@target src/sop/esop.rs
// C15 - Esop.  BOUNDED contract triples (model_checking level), child module of esop.rs.
//   from_lut_nN : Esop::from(&Lut) for EVERY function of N <= 2 variables: the cube of variable set S occurs exactly
//                 a_S times, a_S = XOR of f over the assignments contained in S (computed by the harness); there is no
//                 other cube (so no negative literal); converting back gives the function.
//   value/xor/not/lut with exactly K symbolic cubes (over all 32 variables), n variables.
#[cfg(kani)]
mod verif_c15 {
    use super::*;
    use crate::operations::verif_spec::bit;

    fn from_lut<const N: usize>() {
        let w: u64 = kani::any();
        from_lut_of::<N>(w);
    }
    /// the same triple for the functions lo..hi one by one (each conversion then runs on a concrete table)
    fn from_lut_range<const N: usize>(lo: u64, hi: u64) {
        let mut w = lo;
        while w < hi {
            from_lut_of::<N>(w);
            w += 1;
        }
    }
    fn from_lut_of<const N: usize>(w: u64) {
        let mask: u64 = (1u64 << (1usize << N)) - 1;
        let f = w & mask;
        let lut = Lut::from_blocks(N, &[f]);
        let e = Esop::from(&lut);
        assert!(e.num_vars() == N);
        let cubes = e.cubes();
        let mut total = 0usize;
        let mut s = 0usize;
        while s < (1usize << N) {
            // algebraic-normal-form coefficient of the monomial with variable set s
            let mut a = false;
            let mut m = 0usize;
            while m < (1usize << N) {
                if m & !s == 0 && (f >> m) & 1 == 1 {
                    a = !a;
                }
                m += 1;
            }
            let want = Cube::from_mask(s as u32, 0);
            let mut cnt = 0usize;
            let mut i = 0;
            while i < cubes.len() {
                if cubes[i] == want {
                    cnt += 1;
                }
                i += 1;
            }
            assert!(cnt == a as usize);
            total += a as usize;
            s += 1;
        }
        // nothing but those all-positive cubes
        assert!(e.num_cubes() == total);
        // converting back gives the function
        let back = Lut::from(&e);
        assert!(back.num_vars() == N && back.blocks()[0] == f);
        // is_zero / is_one only for the constants
        if e.is_zero() {
            assert!(f == 0);
        }
        if e.is_one() {
            assert!(f == mask);
        }
        kani::cover!(total >= 1 || N == 0, "post-reached");
    }

    /// multi-word tables (n = 7): the conversion of a positive monomial (concrete, one at a time) is that monomial alone,
    /// and of constant one the empty cube alone - coefficient-exact on a family where the expected form is known
    fn from_lut_monomials_n7(lo: u32, hi: u32) {
        let mut s = lo;
        while s < hi {
            // table of the AND of the variables in s, over 7 variables
            let mut t = [0u64; 2];
            let mut m = 0usize;
            while m < 128 {
                if (m as u32) & s == s {
                    t[m >> 6] |= 1u64 << (m & 63);
                }
                m += 1;
            }
            let e = Esop::from(&Lut::from_blocks(7, &t));
            assert!(e.num_cubes() == 1);
            assert!(e.cubes()[0] == Cube::from_mask(s, 0));
            s += 1;
        }
        kani::cover!(true, "post-reached");
    }

    fn any_esop<const K: usize>(n: usize) -> (Esop, [Cube; K]) {
        let mut terms: [Cube; K] = [Cube::one(); K];
        let mut i = 0;
        while i < K {
            terms[i] = kani::any();
            i += 1;
        }
        (Esop { num_vars: n, cubes: terms.to_vec() }, terms)
    }
    fn spec_value<const K: usize>(terms: &[Cube; K], m: usize) -> bool {
        let mut r = false;
        let mut i = 0;
        while i < K {
            if terms[i].value(m) {
                r = !r;
            }
            i += 1;
        }
        r
    }
    fn value_k<const K: usize>(n: usize) {
        let (e, terms) = any_esop::<K>(n);
        let m: usize = kani::any();
        kani::assume(m < (1usize << n));
        assert!(e.value(m) == spec_value::<K>(&terms, m));
        if e.is_zero() {
            assert!(!e.value(m));
        }
        if e.is_one() {
            assert!(e.value(m));
        }
        assert!(e.num_cubes() == K && e.num_vars() == n);
        kani::cover!(e.value(m) || K == 0, "post-reached");
    }
    fn xor_not_k<const K1: usize, const K2: usize>(n: usize) {
        let (a, ta) = any_esop::<K1>(n);
        let (b, tb) = any_esop::<K2>(n);
        let m: usize = kani::any();
        kani::assume(m < (1usize << n));
        let va = spec_value::<K1>(&ta, m);
        let vb = spec_value::<K2>(&tb, m);
        let r = &a ^ &b;
        assert!(r.value(m) == (va != vb) && r.num_vars() == n);
        assert!((a.clone() ^ b.clone()).value(m) == (va != vb));
        assert!((&a ^ b.clone()).value(m) == (va != vb));
        assert!((a.clone() ^ &b).value(m) == (va != vb));
        assert!((!&a).value(m) == !va && (!a.clone()).value(m) == !va);
        assert!(a.value(m) == va && b.value(m) == vb);
        kani::cover!(r.value(m) || K1 + K2 == 0, "post-reached");
    }
    fn to_lut_k<const K: usize>(n: usize) {
        let (e, terms) = any_esop::<K>(n);
        let l = Lut::from(&e);
        let m: usize = kani::any();
        kani::assume(m < (1usize << n));
        assert!(l.num_vars() == n);
        assert!(bit(l.blocks(), m) == spec_value::<K>(&terms, m));
        kani::cover!(bit(l.blocks(), m) || K == 0, "post-reached");
    }
    #[kani::proof]
    #[kani::unwind(4)]
    fn c15q_esop_constants() {
        let n: usize = kani::any();
        kani::assume(n <= 32);
        let m: usize = kani::any();
        assert!(Esop::zero(n).is_zero() && !Esop::zero(n).is_one() && !Esop::zero(n).value(m));
        assert!(Esop::one(n).is_one() && !Esop::one(n).is_zero() && Esop::one(n).value(m));
        let v: usize = kani::any();
        kani::assume(v < 32);
        assert!(Esop::nth_var(32, v).value(m) == ((m >> v) & 1 == 1));
        assert!(Esop::nth_var_inv(32, v).value(m) == ((m >> v) & 1 == 0));
        kani::cover!(true, "post-reached");
    }

    macro_rules! h {
        ($name:ident, $unw:expr, $body:expr) => {
            #[kani::proof]
            #[kani::unwind($unw)]
            fn $name() {
                $body;
            }
        };
    }
    h!(c15q_from_lut_n0, 6, from_lut::<0>());
    h!(c15q_from_lut_n1, 6, from_lut::<1>());
    h!(c15q_from_lut_n2_all16, 18, from_lut_range::<2>(0, 16));
    h!(c15t_from_lut_n3_0_8, 11, from_lut_range::<3>(0, 8));
    h!(c15t_from_lut_n3_8_16, 11, from_lut_range::<3>(8, 16));
    h!(c15t_from_lut_n3_16_24, 11, from_lut_range::<3>(16, 24));
    h!(c15t_from_lut_n3_24_32, 11, from_lut_range::<3>(24, 32));
    h!(c15t_from_lut_n3_32_40, 11, from_lut_range::<3>(32, 40));
    h!(c15t_from_lut_n3_40_48, 11, from_lut_range::<3>(40, 48));
    h!(c15t_from_lut_n3_48_56, 11, from_lut_range::<3>(48, 56));
    h!(c15t_from_lut_n3_56_64, 11, from_lut_range::<3>(56, 64));
    h!(c15t_from_lut_n3_64_72, 11, from_lut_range::<3>(64, 72));
    h!(c15t_from_lut_n3_72_80, 11, from_lut_range::<3>(72, 80));
    h!(c15t_from_lut_n3_80_88, 11, from_lut_range::<3>(80, 88));
    h!(c15t_from_lut_n3_88_96, 11, from_lut_range::<3>(88, 96));
    h!(c15t_from_lut_n3_96_104, 11, from_lut_range::<3>(96, 104));
    h!(c15t_from_lut_n3_104_112, 11, from_lut_range::<3>(104, 112));
    h!(c15t_from_lut_n3_112_120, 11, from_lut_range::<3>(112, 120));
    h!(c15t_from_lut_n3_120_128, 11, from_lut_range::<3>(120, 128));
    h!(c15t_from_lut_n3_128_136, 11, from_lut_range::<3>(128, 136));
    h!(c15t_from_lut_n3_136_144, 11, from_lut_range::<3>(136, 144));
    h!(c15t_from_lut_n3_144_152, 11, from_lut_range::<3>(144, 152));
    h!(c15t_from_lut_n3_152_160, 11, from_lut_range::<3>(152, 160));
    h!(c15t_from_lut_n3_160_168, 11, from_lut_range::<3>(160, 168));
    h!(c15t_from_lut_n3_168_176, 11, from_lut_range::<3>(168, 176));
    h!(c15t_from_lut_n3_176_184, 11, from_lut_range::<3>(176, 184));
    h!(c15t_from_lut_n3_184_192, 11, from_lut_range::<3>(184, 192));
    h!(c15t_from_lut_n3_192_200, 11, from_lut_range::<3>(192, 200));
    h!(c15t_from_lut_n3_200_208, 11, from_lut_range::<3>(200, 208));
    h!(c15t_from_lut_n3_208_216, 11, from_lut_range::<3>(208, 216));
    h!(c15t_from_lut_n3_216_224, 11, from_lut_range::<3>(216, 224));
    h!(c15t_from_lut_n3_224_232, 11, from_lut_range::<3>(224, 232));
    h!(c15t_from_lut_n3_232_240, 11, from_lut_range::<3>(232, 240));
    h!(c15t_from_lut_n3_240_248, 11, from_lut_range::<3>(240, 248));
    h!(c15t_from_lut_n3_248_256, 11, from_lut_range::<3>(248, 256));
    h!(c15q_from_lut_n7_mono_0_16, 130, from_lut_monomials_n7(0, 16));
    h!(c15t_from_lut_n7_mono_16_32, 130, from_lut_monomials_n7(16, 32));
    h!(c15t_from_lut_n7_mono_32_48, 130, from_lut_monomials_n7(32, 48));
    h!(c15t_from_lut_n7_mono_48_64, 130, from_lut_monomials_n7(48, 64));
    h!(c15q_from_lut_n7_mono_64_80, 130, from_lut_monomials_n7(64, 80));
    h!(c15t_from_lut_n7_mono_80_96, 130, from_lut_monomials_n7(80, 96));
    h!(c15t_from_lut_n7_mono_96_112, 130, from_lut_monomials_n7(96, 112));
    h!(c15q_from_lut_n7_mono_112_128, 130, from_lut_monomials_n7(112, 128));
    h!(c15q_value_k0_n2, 6, value_k::<0>(2));
    h!(c15q_value_k1_n2, 6, value_k::<1>(2));
    h!(c15q_value_k2_n3, 6, value_k::<2>(3));
    h!(c15q_value_k3_n3, 6, value_k::<3>(3));
    h!(c15t_value_k4_n4, 7, value_k::<4>(4));
    h!(c15q_xor_k0k1_n2, 6, xor_not_k::<0, 1>(2));
    h!(c15q_xor_k1k1_n2, 6, xor_not_k::<1, 1>(2));
    h!(c15q_xor_k2k1_n3, 7, xor_not_k::<2, 1>(3));
    h!(c15t_xor_k2k2_n3, 8, xor_not_k::<2, 2>(3));
    h!(c15t_xor_k3k2_n4, 9, xor_not_k::<3, 2>(4));
    h!(c15q_lut_k0_n2, 6, to_lut_k::<0>(2));
    h!(c15q_lut_k1_n2, 6, to_lut_k::<1>(2));
    h!(c15q_lut_k2_n2, 6, to_lut_k::<2>(2));
    h!(c15t_lut_k3_n3, 10, to_lut_k::<3>(3));
    h!(c15t_lut_k4_n4, 18, to_lut_k::<4>(4));
}
