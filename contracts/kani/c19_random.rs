//@target src/lib.rs
// C19 - random(): transparency with respect to the generator.  The `rand` dependency is replaced in the overlay
// by a contract-model crate (contracts/models/rand) whose `thread_rng().next_u64()` returns the successive
// elements of a harness-controlled symbolic sequence and counts the calls.
// Triple: {any generator output sequence} random(); random() {each table word w of draw d == seq[d*T + w] & mask(n);
// exactly T generator calls per draw; result well-formed}: every word is filled from a fresh generator output,
// only the size mask is applied, no draw is reused or dropped, no state is kept between calls.
#[cfg(kani)]
mod verif_c19 {
    use crate::operations::verif_spec::*;
    use crate::{Lut, StaticLut};

    fn set_seq<const T2: usize>(seq: &[u64; T2]) {
        let mut i = 0;
        while i < T2 {
            unsafe {
                rand::SEQ[i] = seq[i];
            }
            i += 1;
        }
        unsafe {
            rand::CALLS = 0;
        }
    }
    fn calls() -> usize {
        unsafe { rand::CALLS }
    }

    fn random_s<const N: usize, const T: usize, const T2: usize>() {
        let seq: [u64; T2] = kani::any();
        set_seq::<T2>(&seq);
        let a = StaticLut::<N, T>::random();
        assert!(calls() == T);
        let b = StaticLut::<N, T>::random();
        assert!(calls() == 2 * T);
        let w: usize = kani::any();
        kani::assume(w < T);
        assert!(a.blocks()[w] == seq[w] & nmask(N));
        assert!(b.blocks()[w] == seq[T + w] & nmask(N));
        assert!(wf(N, a.blocks()) && wf(N, b.blocks()));
        // non-degeneracy relative to the generator: any value of any assignment is reachable, draws can differ
        let m = any_assignment(N);
        kani::cover!(bit(a.blocks(), m) && !bit(b.blocks(), m), "post-reached");
    }
    fn random_d<const T: usize, const T2: usize>(n: usize) {
        let seq: [u64; T2] = kani::any();
        set_seq::<T2>(&seq);
        let a = Lut::random(n);
        assert!(calls() == T);
        let b = Lut::random(n);
        assert!(calls() == 2 * T);
        let w: usize = kani::any();
        kani::assume(w < T);
        assert!(a.blocks().len() == T && b.blocks().len() == T && a.num_vars() == n && b.num_vars() == n);
        assert!(a.blocks()[w] == seq[w] & nmask(n));
        assert!(b.blocks()[w] == seq[T + w] & nmask(n));
        assert!(wf(n, a.blocks()) && wf(n, b.blocks()));
        let m = any_assignment(n);
        kani::cover!(bit(a.blocks(), m) && !bit(b.blocks(), m), "post-reached");
    }

    macro_rules! h {
        ($name:ident, $unw:expr, $body:expr) => {
            #[kani::proof]
            #[kani::unwind($unw)]
            fn $name() {
                $body;
            }
        };
    }
    h!(c19q_s_n0, 9, random_s::<0, 1, 2>());
    h!(c19q_s_n1, 9, random_s::<1, 1, 2>());
    h!(c19t_s_n2, 9, random_s::<2, 1, 2>());
    h!(c19t_s_n3, 9, random_s::<3, 1, 2>());
    h!(c19t_s_n4, 9, random_s::<4, 1, 2>());
    h!(c19q_s_n5, 9, random_s::<5, 1, 2>());
    h!(c19q_s_n6, 9, random_s::<6, 1, 2>());
    h!(c19q_s_n7, 9, random_s::<7, 2, 4>());
    h!(c19q_s_n8, 10, random_s::<8, 4, 8>());
    h!(c19t_s_n9, 18, random_s::<9, 8, 16>());
    h!(c19t_s_n10, 34, random_s::<10, 16, 32>());
    h!(c19t_s_n11, 66, random_s::<11, 32, 64>());
    h!(c19t_s_n12, 130, random_s::<12, 64, 128>());
    h!(c19q_d_n0, 9, random_d::<1, 2>(0));
    h!(c19t_d_n1, 9, random_d::<1, 2>(1));
    h!(c19t_d_n2, 9, random_d::<1, 2>(2));
    h!(c19q_d_n3, 9, random_d::<1, 2>(3));
    h!(c19t_d_n4, 9, random_d::<1, 2>(4));
    h!(c19t_d_n5, 9, random_d::<1, 2>(5));
    h!(c19q_d_n6, 9, random_d::<1, 2>(6));
    h!(c19q_d_n7, 9, random_d::<2, 4>(7));
    h!(c19t_d_n8, 10, random_d::<4, 8>(8));
    h!(c19q_d_n9, 18, random_d::<8, 16>(9));
    h!(c19t_d_n10, 34, random_d::<16, 32>(10));
    h!(c19t_d_n11, 66, random_d::<32, 64>(11));
    h!(c19t_d_n12, 130, random_d::<64, 128>(12));
}
