// ---------------------------------------------------------------------------------------------
// Assignment-level statement of swap (C03) derived from the word-level contract swap_post, all three regimes.
pub open spec fn swapbitsu(m: usize, i: usize, j: usize) -> usize {
    let bi = (m >> i) & 1; let bj = (m >> j) & 1;
    (m & !(1usize << i) & !(1usize << j)) | (bj << i) | (bi << j)
}

proof fn lemma_cross_bit(t0: u64, t1: u64, j: usize, k: u64)
    requires j <= 5, k < 64
    ensures
        (cross_lo(t0, t1, j) >> k) & 1 == (if (k >> (j as u64)) & 1 == 0 { (t0 >> k) & 1 } else { (t1 >> (k & !(1u64 << (j as u64)))) & 1 }),
        (cross_hi(t0, t1, j) >> k) & 1 == (if (k >> (j as u64)) & 1 == 1 { (t1 >> k) & 1 } else { (t0 >> (k | (1u64 << (j as u64)))) & 1 }),
{
    let m = vm(j); let s = sh(j) as u64; let ju = j as u64;
    assert(k < 64 && (
       (ju == 0 && m == 0xaaaa_aaaa_aaaa_aaaau64 && s == 1) ||
       (ju == 1 && m == 0xcccc_cccc_cccc_ccccu64 && s == 2) ||
       (ju == 2 && m == 0xf0f0_f0f0_f0f0_f0f0u64 && s == 4) ||
       (ju == 3 && m == 0xff00_ff00_ff00_ff00u64 && s == 8) ||
       (ju == 4 && m == 0xffff_0000_ffff_0000u64 && s == 16) ||
       (ju == 5 && m == 0xffff_ffff_0000_0000u64 && s == 32)) ==>
       ((((t0 & !m) | ((t1 & !m) << s)) >> k) & 1 == (if (k >> ju) & 1 == 0 { (t0 >> k) & 1 } else { (t1 >> (k & !(1u64 << ju))) & 1 }))
       && (((((t0 & m) >> s) | (t1 & m)) >> k) & 1 == (if (k >> ju) & 1 == 1 { (t1 >> k) & 1 } else { (t0 >> (k | (1u64 << ju))) & 1 }))
    ) by (bit_vector);
}

// index arithmetic of swapbitsu per regime
proof fn lemma_swapbits_index(n: usize, hi: usize, lo: usize, m: usize)
    requires n < 64, lo < hi < n, m < (1usize << n)
    ensures ({
        let p = swapbitsu(m, hi, lo);
        let w = m >> 6; let k = m & 63;
        &&& p < (1usize << n)
        &&& p == swapbitsu(m, lo, hi)
        &&& hi <= 5 ==> (p >> 6) == w && (p & 63) == ((k & !(1usize << hi) & !(1usize << lo)) | (((k >> lo) & 1) << hi) | (((k >> hi) & 1) << lo))
        &&& (lo <= 5 && hi >= 6) ==> ({
                let mi = 1usize << ((hi - 6) as usize);
                &&& ((w & mi) == 0) == (((m >> hi) & 1) == 0)
                &&& (w & !mi) < tsize(n) && (w | mi) < tsize(n)
                &&& ((w & mi) == 0 && ((k >> lo) & 1) == 0) ==> (p >> 6) == (w & !mi) && (p & 63) == k && (w & !mi) == w
                &&& ((w & mi) == 0 && ((k >> lo) & 1) == 1) ==> (p >> 6) == (w | mi) && (p & 63) == (k & !(1usize << lo))
                &&& ((w & mi) != 0 && ((k >> lo) & 1) == 1) ==> (p >> 6) == (w | mi) && (p & 63) == k && (w | mi) == w
                &&& ((w & mi) != 0 && ((k >> lo) & 1) == 0) ==> (p >> 6) == (w & !mi) && (p & 63) == (k | (1usize << lo))
            })
        &&& lo >= 6 ==> ({
                let a = 1usize << ((hi - 6) as usize); let b = 1usize << ((lo - 6) as usize);
                &&& (p & 63) == k
                &&& (p >> 6) == (if is_mixed(w, a, b) { w ^ a ^ b } else { w })
                &&& (w ^ a ^ b) < tsize(n)
            })
    })
{
    let e = if n > 6 { (n - 6) as usize } else { 0usize };
    let eh = if hi >= 6 { (hi - 6) as usize } else { 0usize };
    let el = if lo >= 6 { (lo - 6) as usize } else { 0usize };
    let p = swapbitsu(m, hi, lo);
    let w = m >> 6; let k = m & 63;
    let ts = if n <= 6 { 1usize } else { 1usize << e };
    assert(ts == tsize(n));
    assert(n < 64 && lo < hi && hi < n && m < (1usize << n)
        && p == ((m & !(1usize << hi) & !(1usize << lo)) | (((m >> lo) & 1) << hi) | (((m >> hi) & 1) << lo))
        ==> p < (1usize << n)
            && p == ((m & !(1usize << lo) & !(1usize << hi)) | (((m >> hi) & 1) << lo) | (((m >> lo) & 1) << hi))) by (bit_vector);
    if hi <= 5 {
        assert(lo < hi && hi <= 5 && w == m >> 6 && k == m & 63
            && p == ((m & !(1usize << hi) & !(1usize << lo)) | (((m >> lo) & 1) << hi) | (((m >> hi) & 1) << lo))
            ==> (p >> 6) == w && (p & 63) == ((k & !(1usize << hi) & !(1usize << lo)) | (((k >> lo) & 1) << hi) | (((k >> hi) & 1) << lo))) by (bit_vector);
    } else if lo <= 5 {
        let mi = 1usize << eh;
        assert(n < 64 && lo <= 5 && hi >= 6 && hi < n && m < (1usize << n) && eh == hi - 6 && e == n - 6 && mi == 1usize << eh && w == m >> 6 && k == m & 63
            && ts == (1usize << e)
            && p == ((m & !(1usize << hi) & !(1usize << lo)) | (((m >> lo) & 1) << hi) | (((m >> hi) & 1) << lo))
            ==> (((w & mi) == 0) == (((m >> hi) & 1) == 0))
             && (w & !mi) < ts && (w | mi) < ts
             && (((w & mi) == 0 && ((k >> lo) & 1) == 0) ==> (p >> 6) == (w & !mi) && (p & 63) == k && (w & !mi) == w)
             && (((w & mi) == 0 && ((k >> lo) & 1) == 1) ==> (p >> 6) == (w | mi) && (p & 63) == (k & !(1usize << lo)))
             && (((w & mi) != 0 && ((k >> lo) & 1) == 1) ==> (p >> 6) == (w | mi) && (p & 63) == k && (w | mi) == w)
             && (((w & mi) != 0 && ((k >> lo) & 1) == 0) ==> (p >> 6) == (w & !mi) && (p & 63) == (k | (1usize << lo)))) by (bit_vector);
    } else {
        let a = 1usize << eh; let b = 1usize << el;
        assert(n < 64 && lo >= 6 && lo < hi && hi < n && m < (1usize << n) && eh == hi - 6 && el == lo - 6 && e == n - 6 && a == 1usize << eh && b == 1usize << el
            && w == m >> 6 && k == m & 63 && ts == (1usize << e)
            && p == ((m & !(1usize << hi) & !(1usize << lo)) | (((m >> lo) & 1) << hi) | (((m >> hi) & 1) << lo))
            ==> (p & 63) == k
             && (p >> 6) == (if ((w & a) == 0) != ((w & b) == 0) { w ^ a ^ b } else { w })
             && (w ^ a ^ b) < ts) by (bit_vector);
    }
}

pub proof fn lemma_swap_bits(n: usize, o: Seq<u64>, f: Seq<u64>, ind1: usize, ind2: usize, m: usize)
    requires n < 64, ind1 < n, ind2 < n, o.len() == tsize(n), swap_post(n, o, f, ind1, ind2), m < (1usize << n),
    ensures bitu(f, m) == bitu(o, swapbitsu(m, ind1, ind2)), swapbitsu(m, ind1, ind2) < (1usize << n),
{
    if ind1 == ind2 {
        assert(ind1 < 64 ==> ((m & !(1usize << ind1) & !(1usize << ind1)) | (((m >> ind1) & 1) << ind1) | (((m >> ind1) & 1) << ind1)) == m) by (bit_vector);
    } else {
        let hi = if ind1 > ind2 { ind1 } else { ind2 };
        let lo = if ind1 > ind2 { ind2 } else { ind1 };
        lemma_swapbits_index(n, hi, lo, m);
        lemma_bit_index(n, m);
        let p = swapbitsu(m, hi, lo);
        assert(p == swapbitsu(m, ind1, ind2));
        let w = m >> 6; let k = m & 63;
        assert(f[w as int] == f[w as int]);
        if hi <= 5 {
            assert(f[w as int] == swapw(o[w as int], hi, lo));
            lemma_swapw_bit(o[w as int], hi, lo, k as u64);
            let ku = k as u64; let hu = hi as u64; let lu = lo as u64;
            assert(lo < hi && hi <= 5 && k < 64 && ku == k as u64 && hu == hi as u64 && lu == lo as u64 ==>
                (((k & !(1usize << hi) & !(1usize << lo)) | (((k >> lo) & 1) << hi) | (((k >> hi) & 1) << lo)) as u64)
                 == ((ku & !(1u64 << hu) & !(1u64 << lu)) | (((ku >> lu) & 1) << hu) | (((ku >> hu) & 1) << lu))) by (bit_vector);
        } else if lo <= 5 {
            let mi = 1usize << ((hi - 6) as usize);
            let t0 = o[(w & !mi) as int]; let t1 = o[(w | mi) as int];
            lemma_cross_bit(t0, t1, lo, k as u64);
            let ku = k as u64; let lu = lo as u64;
            assert(lo <= 5 && k < 64 && ku == k as u64 && lu == lo as u64 ==>
                ((((k >> lo) & 1) == 0) == (((ku >> lu) & 1) == 0)) && ((((k >> lo) & 1) == 1) == (((ku >> lu) & 1) == 1))
                && ((k & !(1usize << lo)) as u64) == (ku & !(1u64 << lu)) && ((k | (1usize << lo)) as u64) == (ku | (1u64 << lu))
                && (((k >> lo) & 1) == 0 || ((k >> lo) & 1) == 1)) by (bit_vector);
            if (w & mi) == 0 {
                assert(f[w as int] == cross_lo(t0, t1, lo));
            } else {
                assert(f[w as int] == cross_hi(t0, t1, lo));
            }
        } else {
            let a = 1usize << ((ind1 - 6) as usize); let b = 1usize << ((ind2 - 6) as usize);
            assert((w ^ a ^ b) == (w ^ b ^ a)) by (bit_vector);
            assert(is_mixed(w, a, b) == is_mixed(w, b, a));
            assert(f[w as int] == (if is_mixed(w, a, b) { o[(w ^ a ^ b) as int] } else { o[w as int] }));
        }
    }
}
