// ---------- spec vocabulary
pub open spec fn tsize(n: usize) -> usize { if n <= 6 { 1usize } else { 1usize << ((n - 6) as usize) } }

pub open spec fn vm(ind: usize) -> u64 {
    if ind == 0 { 0xaaaa_aaaa_aaaa_aaaau64 }
    else if ind == 1 { 0xcccc_cccc_cccc_ccccu64 }
    else if ind == 2 { 0xf0f0_f0f0_f0f0_f0f0u64 }
    else if ind == 3 { 0xff00_ff00_ff00_ff00u64 }
    else if ind == 4 { 0xffff_0000_ffff_0000u64 }
    else { 0xffff_ffff_0000_0000u64 }
}
pub open spec fn sh(ind: usize) -> i32 {
    if ind == 0 { 1i32 } else if ind == 1 { 2i32 } else if ind == 2 { 4i32 } else if ind == 3 { 8i32 } else if ind == 4 { 16i32 } else { 32i32 }
}
pub open spec fn flipw(t: u64, ind: usize) -> u64 {
    (((t & vm(ind)) >> (sh(ind) as u64)) | ((t & !vm(ind)) << (sh(ind) as u64)))
}
proof fn lemma_stride(i: usize, e: usize, ne: usize)
    requires e < ne < 58, i < (1usize << ne)
    ensures
        i & (1usize << e) == 0 ==> i + (1usize << e) < (1usize << ne) && add(i, (1usize << e)) == i ^ (1usize << e) && (i & !(1usize << e)) == i,
        i & (1usize << e) != 0 ==> (i & !(1usize << e)) < i,
        (i ^ (1usize << e)) < (1usize << ne),
{
    assert(e < ne && ne < 58 && i < (1usize << ne) ==> (
        (i & (1usize << e) == 0 ==> i <= sub(usize::MAX, (1usize << e)) && add(i, (1usize << e)) < (1usize << ne) && add(i, (1usize << e)) == i ^ (1usize << e) && (i & !(1usize << e)) == i)
        && (i & (1usize << e) != 0 ==> (i & !(1usize << e)) < i)
        && (i ^ (1usize << e)) < (1usize << ne))) by (bit_vector);
}
proof fn lemma_stride2(w: usize, i: usize, e: usize, ne: usize)
    requires e < ne < 58, w < (1usize << ne), i <= (1usize << ne)
    ensures
        (w ^ (1usize << e)) < (1usize << ne),
        ((w ^ (1usize << e)) & !(1usize << e)) == (w & !(1usize << e)),
        (w & !(1usize << e)) <= w,
        (w & !(1usize << e)) == w || (w & !(1usize << e)) == (w ^ (1usize << e)),
        (w & !(1usize << e)) < (1usize << ne),
        ((w ^ (1usize << e)) ^ (1usize << e)) == w,
        (w ^ (1usize << e)) != w,
{
    assert(e < ne && ne < 58 && w < (1usize << ne) ==> (
        (w ^ (1usize << e)) < (1usize << ne)
        && ((w ^ (1usize << e)) & !(1usize << e)) == (w & !(1usize << e))
        && (w & !(1usize << e)) <= w
        && ((w & !(1usize << e)) == w || (w & !(1usize << e)) == (w ^ (1usize << e)))
        && (w & !(1usize << e)) < (1usize << ne)
        && ((w ^ (1usize << e)) ^ (1usize << e)) == w
        && (w ^ (1usize << e)) != w)) by (bit_vector);
}
proof fn lemma_sh(ind: usize)
    requires ind <= 5
    ensures (1i32 << ind) == sh(ind)
{
    assert((1i32 << 0usize) == 1i32) by (bit_vector);
    assert((1i32 << 1usize) == 2i32) by (bit_vector);
    assert((1i32 << 2usize) == 4i32) by (bit_vector);
    assert((1i32 << 3usize) == 8i32) by (bit_vector);
    assert((1i32 << 4usize) == 16i32) by (bit_vector);
    assert((1i32 << 5usize) == 32i32) by (bit_vector);
}
proof fn lemma_flip_nocarry(t: u64, ind: usize)
    requires ind <= 5
    ensures
        ((t & vm(ind)) >> (sh(ind) as u64)) + ((t & !vm(ind)) << (sh(ind) as u64)) == flipw(t, ind),
        ((t & vm(ind)) >> (sh(ind) as u64)) + ((t & !vm(ind)) << (sh(ind) as u64)) <= u64::MAX,
{
    let m = vm(ind); let s = sh(ind) as u64;
    assert(
      ((ind == 0 && m == 0xaaaa_aaaa_aaaa_aaaau64 && s == 1) ||
       (ind == 1 && m == 0xcccc_cccc_cccc_ccccu64 && s == 2) ||
       (ind == 2 && m == 0xf0f0_f0f0_f0f0_f0f0u64 && s == 4) ||
       (ind == 3 && m == 0xff00_ff00_ff00_ff00u64 && s == 8) ||
       (ind == 4 && m == 0xffff_0000_ffff_0000u64 && s == 16) ||
       (ind == 5 && m == 0xffff_ffff_0000_0000u64 && s == 32)));
    assert(
      ((m == 0xaaaa_aaaa_aaaa_aaaau64 && s == 1) ||
       (m == 0xcccc_cccc_cccc_ccccu64 && s == 2) ||
       (m == 0xf0f0_f0f0_f0f0_f0f0u64 && s == 4) ||
       (m == 0xff00_ff00_ff00_ff00u64 && s == 8) ||
       (m == 0xffff_0000_ffff_0000u64 && s == 16) ||
       (m == 0xffff_ffff_0000_0000u64 && s == 32)) ==>
       (((t & m) >> s) & ((t & !m) << s)) == 0u64) by (bit_vector);
    let a = (t & m) >> s; let b = (t & !m) << s;
    assert(a & b == 0u64 ==> a <= sub(u64::MAX, b) && add(a, b) == a | b) by (bit_vector);
}

pub open spec fn sm(i: usize, j: usize) -> u64 {
    if i == 1 && j == 0 { 0x2222222222222222u64 }
    else if i == 2 && j == 0 { 0x0a0a0a0a0a0a0a0au64 }
    else if i == 2 && j == 1 { 0x0c0c0c0c0c0c0c0cu64 }
    else if i == 3 && j == 0 { 0x00aa00aa00aa00aau64 }
    else if i == 3 && j == 1 { 0x00cc00cc00cc00ccu64 }
    else if i == 3 && j == 2 { 0x00f000f000f000f0u64 }
    else if i == 4 && j == 0 { 0x0000aaaa0000aaaau64 }
    else if i == 4 && j == 1 { 0x0000cccc0000ccccu64 }
    else if i == 4 && j == 2 { 0x0000f0f00000f0f0u64 }
    else if i == 4 && j == 3 { 0x0000ff000000ff00u64 }
    else if i == 5 && j == 0 { 0x00000000aaaaaaaau64 }
    else if i == 5 && j == 1 { 0x00000000ccccccccu64 }
    else if i == 5 && j == 2 { 0x00000000f0f0f0f0u64 }
    else if i == 5 && j == 3 { 0x00000000ff00ff00u64 }
    else if i == 5 && j == 4 { 0x00000000ffff0000u64 }
    else { 0u64 }
}
pub open spec fn swapw(t: u64, i: usize, j: usize) -> u64 {
    let sh = ((1u64 << (i as u64)) - (1u64 << (j as u64))) as u64;
    let ml = sm(i, j);
    let mr = ml << sh;
    (t & !ml & !mr) | ((t & ml) << sh) | ((t & mr) >> sh)
}
// position k of the result reads position swapbits(k,i,j) of the argument
pub open spec fn swapbits64(k: u64, i: u64, j: u64) -> u64 {
    let bi = (k >> i) & 1; let bj = (k >> j) & 1;
    (k & !(1u64 << i) & !(1u64 << j)) | (bj << i) | (bi << j)
}
proof fn lemma_swapw_bit(t: u64, i: usize, j: usize, k: u64)
    requires j < i <= 5, k < 64
    ensures (swapw(t, i, j) >> k) & 1 == (t >> swapbits64(k, i as u64, j as u64)) & 1
{
    let ml = sm(i, j);
    let iu = i as u64; let ju = j as u64;
    let sh = ((1u64 << iu) - (1u64 << ju)) as u64;
    assert(ju < iu && iu <= 5 ==> (1u64 << iu) > (1u64 << ju) && sub((1u64 << iu), (1u64 << ju)) < 64) by (bit_vector);
    assert(sh == sub((1u64 << iu), (1u64 << ju)));
    assert(k < 64 && ju < iu && iu <= 5 && sh == sub((1u64 << iu), (1u64 << ju)) && (
        (iu == 1 && ju == 0 && ml == 0x2222222222222222u64) ||
        (iu == 2 && ju == 0 && ml == 0x0a0a0a0a0a0a0a0au64) ||
        (iu == 2 && ju == 1 && ml == 0x0c0c0c0c0c0c0c0cu64) ||
        (iu == 3 && ju == 0 && ml == 0x00aa00aa00aa00aau64) ||
        (iu == 3 && ju == 1 && ml == 0x00cc00cc00cc00ccu64) ||
        (iu == 3 && ju == 2 && ml == 0x00f000f000f000f0u64) ||
        (iu == 4 && ju == 0 && ml == 0x0000aaaa0000aaaau64) ||
        (iu == 4 && ju == 1 && ml == 0x0000cccc0000ccccu64) ||
        (iu == 4 && ju == 2 && ml == 0x0000f0f00000f0f0u64) ||
        (iu == 4 && ju == 3 && ml == 0x0000ff000000ff00u64) ||
        (iu == 5 && ju == 0 && ml == 0x00000000aaaaaaaau64) ||
        (iu == 5 && ju == 1 && ml == 0x00000000ccccccccu64) ||
        (iu == 5 && ju == 2 && ml == 0x00000000f0f0f0f0u64) ||
        (iu == 5 && ju == 3 && ml == 0x00000000ff00ff00u64) ||
        (iu == 5 && ju == 4 && ml == 0x00000000ffff0000u64))
      ==> ((((t & !ml & !(ml << sh)) | ((t & ml) << sh) | ((t & (ml << sh)) >> sh)) >> k) & 1)
           == (t >> ((k & !(1u64 << iu) & !(1u64 << ju)) | (((k >> ju) & 1) << iu) | (((k >> iu) & 1) << ju))) & 1
    ) by (bit_vector);
}

pub open spec fn shs(i: usize, j: usize) -> i32 { (sh(i) - sh(j)) as i32 }

proof fn lemma_shs(i: usize, j: usize)
    requires j < i <= 5
    ensures ((1i32 << i) - (1i32 << j)) == shs(i, j), 0 < shs(i, j) < 32,
        (shs(i, j) as u64) == ((1u64 << (i as u64)) - (1u64 << (j as u64))) as u64,
{
    lemma_sh(i); lemma_sh(j);
    let iu = i as u64; let ju = j as u64;
    assert(ju < iu && iu <= 5 ==> (1u64 << iu) > (1u64 << ju)) by (bit_vector);
    assert((1u64 << 0u64) == 1 && (1u64 << 1u64) == 2 && (1u64 << 2u64) == 4 && (1u64 << 3u64) == 8 && (1u64 << 4u64) == 16 && (1u64 << 5u64) == 32) by (bit_vector);
}

proof fn lemma_swapw_nocarry(t: u64, i: usize, j: usize)
    requires j < i <= 5
    ensures ({
        let s = shs(i, j) as u64; let ml = sm(i, j); let mr = ml << s;
        &&& (t & !ml & !mr) + ((t & ml) << s) <= u64::MAX
        &&& (t & !ml & !mr) + ((t & ml) << s) + ((t & mr) >> s) <= u64::MAX
        &&& (t & !ml & !mr) + ((t & ml) << s) + ((t & mr) >> s) == swapw(t, i, j)
    })
{
    lemma_shs(i, j);
    let s = shs(i, j) as u64; let ml = sm(i, j); let mr = ml << s;
    let iu = i as u64; let ju = j as u64;
    let a = t & !ml & !mr; let b = (t & ml) << s; let c = (t & mr) >> s;
    assert(ju < iu && iu <= 5 && s == sub((1u64 << iu), (1u64 << ju)) && mr == ml << s && (
        (iu == 1 && ju == 0 && ml == 0x2222222222222222u64) ||
        (iu == 2 && ju == 0 && ml == 0x0a0a0a0a0a0a0a0au64) ||
        (iu == 2 && ju == 1 && ml == 0x0c0c0c0c0c0c0c0cu64) ||
        (iu == 3 && ju == 0 && ml == 0x00aa00aa00aa00aau64) ||
        (iu == 3 && ju == 1 && ml == 0x00cc00cc00cc00ccu64) ||
        (iu == 3 && ju == 2 && ml == 0x00f000f000f000f0u64) ||
        (iu == 4 && ju == 0 && ml == 0x0000aaaa0000aaaau64) ||
        (iu == 4 && ju == 1 && ml == 0x0000cccc0000ccccu64) ||
        (iu == 4 && ju == 2 && ml == 0x0000f0f00000f0f0u64) ||
        (iu == 4 && ju == 3 && ml == 0x0000ff000000ff00u64) ||
        (iu == 5 && ju == 0 && ml == 0x00000000aaaaaaaau64) ||
        (iu == 5 && ju == 1 && ml == 0x00000000ccccccccu64) ||
        (iu == 5 && ju == 2 && ml == 0x00000000f0f0f0f0u64) ||
        (iu == 5 && ju == 3 && ml == 0x00000000ff00ff00u64) ||
        (iu == 5 && ju == 4 && ml == 0x00000000ffff0000u64))
      ==> ((t & !ml & !mr) & ((t & ml) << s)) == 0u64
          && (((t & !ml & !mr) | ((t & ml) << s)) & ((t & mr) >> s)) == 0u64
    ) by (bit_vector);
    assert(a & b == 0u64 ==> a <= sub(u64::MAX, b) && add(a, b) == a | b) by (bit_vector);
    let ab = (a | b) as u64;
    assert(ab & c == 0u64 ==> ab <= sub(u64::MAX, c) && add(ab, c) == ab | c) by (bit_vector);
}

proof fn lemma_shl_ok(ml: u64, i: usize, j: usize)
    requires j < i <= 5, ml == sm(i, j)
    ensures true
{}
pub open spec fn is_mixed(w: usize, mi: usize, mj: usize) -> bool { ((w & mi) == 0) != ((w & mj) == 0) }
// the smaller element of the pair {w, w ^ mi ^ mj} when w is mixed (mi bit clear, mj bit set)
pub open spec fn pair_low(w: usize, mi: usize, mj: usize) -> usize { (w & !mi) | mj }

proof fn lemma_pair(w: usize, k: usize, ei: usize, ej: usize, ne: usize)
    requires ej < ei < ne < 58, w < (1usize << ne)
    ensures ({
        let mi = 1usize << ei; let mj = 1usize << ej;
        &&& (w ^ mi ^ mj) < (1usize << ne)
        &&& is_mixed(w, mi, mj) == is_mixed((w ^ mi ^ mj) as usize, mi, mj)
        &&& is_mixed(w, mi, mj) ==> pair_low((w ^ mi ^ mj) as usize, mi, mj) == pair_low(w, mi, mj)
        &&& is_mixed(w, mi, mj) ==> (pair_low(w, mi, mj) == w || pair_low(w, mi, mj) == (w ^ mi ^ mj))
        &&& is_mixed(w, mi, mj) ==> pair_low(w, mi, mj) < (1usize << ne)
        &&& ((w ^ mi ^ mj) ^ mi ^ mj) == w
        &&& (w ^ mi ^ mj) != w
        &&& ((mi & w) == 0 && (mj & w) != 0) ==> (w >= mj && sub(w, mj) <= sub(usize::MAX, mi) && add(sub(w, mj), mi) == (w ^ mi ^ mj)
               && pair_low(w, mi, mj) == w && is_mixed(w, mi, mj) && add(sub(w, mj), mi) < (1usize << ne))
        &&& (is_mixed(w, mi, mj) && pair_low(w, mi, mj) == w) ==> ((mi & w) == 0 && (mj & w) != 0)
        &&& (mi & w) == (w & mi) && (mj & w) == (w & mj)
    })
{
    let mi = 1usize << ei; let mj = 1usize << ej; let top = 1usize << ne;
    assert(ej < ei && ei < ne && ne < 58 && w < top && mi == 1usize << ei && mj == 1usize << ej && top == 1usize << ne ==> (
        (w ^ mi ^ mj) < top
        && ((((w & mi) == 0) != ((w & mj) == 0)) == ((((w ^ mi ^ mj) & mi) == 0) != (((w ^ mi ^ mj) & mj) == 0)))
        && ((((w & mi) == 0) != ((w & mj) == 0)) ==> ((((w ^ mi ^ mj) & !mi) | mj) == ((w & !mi) | mj)))
        && ((((w & mi) == 0) != ((w & mj) == 0)) ==> (((w & !mi) | mj) == w || ((w & !mi) | mj) == (w ^ mi ^ mj)))
        && ((((w & mi) == 0) != ((w & mj) == 0)) ==> ((w & !mi) | mj) < top)
        && ((w ^ mi ^ mj) ^ mi ^ mj) == w
        && (w ^ mi ^ mj) != w
        && (((mi & w) == 0 && (mj & w) != 0) ==> (w >= mj && sub(w, mj) <= sub(usize::MAX, mi) && add(sub(w, mj), mi) == (w ^ mi ^ mj)
               && ((w & !mi) | mj) == w && (((w & mi) == 0) != ((w & mj) == 0)) && add(sub(w, mj), mi) < top))
        && (((((w & mi) == 0) != ((w & mj) == 0)) && ((w & !mi) | mj) == w) ==> ((mi & w) == 0 && (mj & w) != 0))
        && (mi & w) == (w & mi) && (mj & w) == (w & mj)
    )) by (bit_vector);
}


pub open spec fn cross_lo(t0: u64, t1: u64, j: usize) -> u64 { (t0 & !vm(j)) | ((t1 & !vm(j)) << (sh(j) as u64)) }
pub open spec fn cross_hi(t0: u64, t1: u64, j: usize) -> u64 { ((t0 & vm(j)) >> (sh(j) as u64)) | (t1 & vm(j)) }

proof fn lemma_cross_nocarry(t0: u64, t1: u64, j: usize)
    requires j <= 5
    ensures ({
        let m = vm(j); let s = sh(j) as u64;
        &&& (t0 & !m) + ((t1 & !m) << s) <= u64::MAX
        &&& (t0 & !m) + ((t1 & !m) << s) == cross_lo(t0, t1, j)
        &&& ((t0 & m) >> s) + (((t1 & m) >> s) << s) <= u64::MAX
        &&& ((t0 & m) >> s) + (((t1 & m) >> s) << s) == cross_hi(t0, t1, j)
    })
{
    let m = vm(j); let s = sh(j) as u64;
    assert(
      ((m == 0xaaaa_aaaa_aaaa_aaaau64 && s == 1) ||
       (m == 0xcccc_cccc_cccc_ccccu64 && s == 2) ||
       (m == 0xf0f0_f0f0_f0f0_f0f0u64 && s == 4) ||
       (m == 0xff00_ff00_ff00_ff00u64 && s == 8) ||
       (m == 0xffff_0000_ffff_0000u64 && s == 16) ||
       (m == 0xffff_ffff_0000_0000u64 && s == 32)) ==>
       ((t0 & !m) & ((t1 & !m) << s)) == 0u64
       && (((t0 & m) >> s) & (((t1 & m) >> s) << s)) == 0u64
       && (((t1 & m) >> s) << s) == (t1 & m)) by (bit_vector);
    let a = t0 & !m; let b = (t1 & !m) << s;
    assert(a & b == 0u64 ==> a <= sub(u64::MAX, b) && add(a, b) == a | b) by (bit_vector);
    let c = (t0 & m) >> s; let d = ((t1 & m) >> s) << s;
    assert(c & d == 0u64 ==> c <= sub(u64::MAX, d) && add(c, d) == c | d) by (bit_vector);
}

proof fn lemma_stride3(w: usize, e: usize, ne: usize)
    requires e < ne < 58, w < (1usize << ne)
    ensures ({
        let s = 1usize << e;
        &&& (w | s) < (1usize << ne)
        &&& ((w & !s) | s) == (w | s)
        &&& (w & s) == 0 ==> (w | s) == (w ^ s) && (w & !s) == w
        &&& (w & s) != 0 ==> (w | s) == w && (w & !s) == (w ^ s)
        &&& ((w & !s) & s) == 0
        &&& ((w & !s) | s) & !s == (w & !s)
    })
{
    let s = 1usize << e; let top = 1usize << ne;
    assert(e < ne && ne < 58 && w < top && s == 1usize << e && top == 1usize << ne ==> (
        (w | s) < top
        && ((w & !s) | s) == (w | s)
        && ((w & s) == 0 ==> (w | s) == (w ^ s) && (w & !s) == w)
        && ((w & s) != 0 ==> (w | s) == w && (w & !s) == (w ^ s))
        && ((w & !s) & s) == 0
        && (((w & !s) | s) & !s) == (w & !s)
    )) by (bit_vector);
}

pub open spec fn cof0w(t: u64, ind: usize) -> u64 { (t & !vm(ind)) | ((t & !vm(ind)) << (sh(ind) as u64)) }
pub open spec fn cof1w(t: u64, ind: usize) -> u64 { ((t & vm(ind)) >> (sh(ind) as u64)) | (t & vm(ind)) }
pub open spec fn mergew(t0: u64, t1: u64, ind: usize) -> u64 { (t1 & vm(ind)) | (t0 & !vm(ind)) }

proof fn lemma_cof_nocarry(t: u64, t2: u64, ind: usize)
    requires ind <= 5
    ensures ({
        let m = vm(ind); let s = sh(ind) as u64;
        &&& (t & !m) + ((t & !m) << s) <= u64::MAX
        &&& (t & !m) + ((t & !m) << s) == cof0w(t, ind)
        &&& ((t & m) >> s) + (t & m) <= u64::MAX
        &&& ((t & m) >> s) + (t & m) == cof1w(t, ind)
        &&& (t2 & m) + (t & !m) <= u64::MAX
        &&& (t2 & m) + (t & !m) == mergew(t, t2, ind)
    })
{
    let m = vm(ind); let s = sh(ind) as u64;
    assert(
      ((m == 0xaaaa_aaaa_aaaa_aaaau64 && s == 1) ||
       (m == 0xcccc_cccc_cccc_ccccu64 && s == 2) ||
       (m == 0xf0f0_f0f0_f0f0_f0f0u64 && s == 4) ||
       (m == 0xff00_ff00_ff00_ff00u64 && s == 8) ||
       (m == 0xffff_0000_ffff_0000u64 && s == 16) ||
       (m == 0xffff_ffff_0000_0000u64 && s == 32)) ==>
       ((t & !m) & ((t & !m) << s)) == 0u64
       && (((t & m) >> s) & (t & m)) == 0u64
       && ((t2 & m) & (t & !m)) == 0u64) by (bit_vector);
    let a = t & !m; let b = (t & !m) << s;
    assert(a & b == 0u64 ==> a <= sub(u64::MAX, b) && add(a, b) == a | b) by (bit_vector);
    let c = (t & m) >> s; let d = t & m;
    assert(c & d == 0u64 ==> c <= sub(u64::MAX, d) && add(c, d) == c | d) by (bit_vector);
    let e = t2 & m; let f = t & !m;
    assert(e & f == 0u64 ==> e <= sub(u64::MAX, f) && add(e, f) == e | f) by (bit_vector);
}
pub open spec fn nmask(n: usize) -> u64 {
    if n == 0 { 0x1u64 } else if n == 1 { 0x3u64 } else if n == 2 { 0xfu64 } else if n == 3 { 0xffu64 }
    else if n == 4 { 0xffffu64 } else if n == 5 { 0xffff_ffffu64 } else { 0xffff_ffff_ffff_ffffu64 }
}
pub open spec fn wf(n: usize, t: Seq<u64>) -> bool { t.len() == tsize(n) && (n < 6 ==> (t[0] & !nmask(n)) == 0) }


proof fn lemma_mask_wf(x: u64, n: usize)
    ensures ((nmask(n) & x) & !nmask(n)) == 0, (nmask(n) & !nmask(n)) == 0
{
    let m = nmask(n);
    assert(((m & x) & !m) == 0 && (m & !m) == 0) by (bit_vector);
}
proof fn lemma_zero_wf(n: usize)
    ensures (0u64 & !nmask(n)) == 0
{
    let m = nmask(n);
    assert((0u64 & !m) == 0) by (bit_vector);
}
proof fn lemma_tsize_pos(n: usize)
    requires n < 64
    ensures tsize(n) >= 1
{
    let e = (n - 6) as usize;
    assert(n > 6 && n < 64 && e == n - 6 ==> (1usize << e) >= 1) by (bit_vector);
}
proof fn lemma_bit_index(n: usize, ind: usize)
    requires n < 64, ind < (1usize << n)
    ensures (ind >> 6) < tsize(n), (ind & 0x3f) < 64,
        n < 6 ==> (ind >> 6) == 0 && ((1u64 << ((ind & 0x3f) as u64)) & !nmask(n)) == 0,
{
    let e = if n > 6 { (n - 6) as usize } else { 0usize };
    assert(n < 64 && ind < (1usize << n) && e == (if n > 6 { (n - 6) as usize } else { 0usize }) ==>
        (ind >> 6) < (if n <= 6 { 1usize } else { 1usize << e }) && (ind & 0x3f) < 64 && (n < 6 ==> (ind >> 6) == 0)) by (bit_vector);
    if n < 6 {
        let m = nmask(n); let k = (ind & 0x3f) as u64;
        assert(n < 6 && ind < (1usize << n) ==> (ind & 0x3f) == ind && ind < 32) by (bit_vector);
        assert(((n == 0 && m == 0x1u64 && k < 1) || (n == 1 && m == 0x3u64 && k < 2) || (n == 2 && m == 0xfu64 && k < 4)
             || (n == 3 && m == 0xffu64 && k < 8) || (n == 4 && m == 0xffffu64 && k < 16) || (n == 5 && m == 0xffff_ffffu64 && k < 32))
            ==> ((1u64 << k) & !m) == 0) by (bit_vector);
        assert(n == 0 ==> ind < 1) by { assert((1usize << 0usize) == 1) by (bit_vector); }
        assert(n == 1 ==> ind < 2) by { assert((1usize << 1usize) == 2) by (bit_vector); }
        assert(n == 2 ==> ind < 4) by { assert((1usize << 2usize) == 4) by (bit_vector); }
        assert(n == 3 ==> ind < 8) by { assert((1usize << 3usize) == 8) by (bit_vector); }
        assert(n == 4 ==> ind < 16) by { assert((1usize << 4usize) == 16) by (bit_vector); }
        assert(n == 5 ==> ind < 32) by { assert((1usize << 5usize) == 32) by (bit_vector); }
    }
}
