// ---------- spec vocabulary
pub open spec fn tsize(n: usize) -> usize { if n <= 6 { 1usize } else { 1usize << ((n - 6) as usize) } }

pub open spec fn vm(ind: usize) -> u64 {
    if ind == 0 { 0xaaaa_aaaa_aaaa_aaaau64 }
    else if ind == 1 { 0xcccc_cccc_cccc_ccccu64 }
    else if ind == 2 { 0xf0f0_f0f0_f0f0_f0f0u64 }
    else if ind == 3 { 0xff00_ff00_ff00_ff00u64 }
    else if ind == 4 { 0xffff_0000_ffff_0000u64 }
    else { 0xffff_ffff_0000_0000u64 }
}
pub open spec fn sh(ind: usize) -> i32 {
    if ind == 0 { 1i32 } else if ind == 1 { 2i32 } else if ind == 2 { 4i32 } else if ind == 3 { 8i32 } else if ind == 4 { 16i32 } else { 32i32 }
}
pub open spec fn flipw(t: u64, ind: usize) -> u64 {
    (((t & vm(ind)) >> (sh(ind) as u64)) | ((t & !vm(ind)) << (sh(ind) as u64)))
}
proof fn lemma_stride(i: usize, e: usize, ne: usize)
    requires e < ne < 58, i < (1usize << ne)
    ensures
        i & (1usize << e) == 0 ==> i + (1usize << e) < (1usize << ne) && add(i, (1usize << e)) == i ^ (1usize << e) && (i & !(1usize << e)) == i,
        i & (1usize << e) != 0 ==> (i & !(1usize << e)) < i,
        (i ^ (1usize << e)) < (1usize << ne),
{
    assert(e < ne && ne < 58 && i < (1usize << ne) ==> (
        (i & (1usize << e) == 0 ==> i <= sub(usize::MAX, (1usize << e)) && add(i, (1usize << e)) < (1usize << ne) && add(i, (1usize << e)) == i ^ (1usize << e) && (i & !(1usize << e)) == i)
        && (i & (1usize << e) != 0 ==> (i & !(1usize << e)) < i)
        && (i ^ (1usize << e)) < (1usize << ne))) by (bit_vector);
}
proof fn lemma_stride2(w: usize, i: usize, e: usize, ne: usize)
    requires e < ne < 58, w < (1usize << ne), i <= (1usize << ne)
    ensures
        (w ^ (1usize << e)) < (1usize << ne),
        ((w ^ (1usize << e)) & !(1usize << e)) == (w & !(1usize << e)),
        (w & !(1usize << e)) <= w,
        (w & !(1usize << e)) == w || (w & !(1usize << e)) == (w ^ (1usize << e)),
        (w & !(1usize << e)) < (1usize << ne),
        ((w ^ (1usize << e)) ^ (1usize << e)) == w,
        (w ^ (1usize << e)) != w,
{
    assert(e < ne && ne < 58 && w < (1usize << ne) ==> (
        (w ^ (1usize << e)) < (1usize << ne)
        && ((w ^ (1usize << e)) & !(1usize << e)) == (w & !(1usize << e))
        && (w & !(1usize << e)) <= w
        && ((w & !(1usize << e)) == w || (w & !(1usize << e)) == (w ^ (1usize << e)))
        && (w & !(1usize << e)) < (1usize << ne)
        && ((w ^ (1usize << e)) ^ (1usize << e)) == w
        && (w ^ (1usize << e)) != w)) by (bit_vector);
}
proof fn lemma_sh(ind: usize)
    requires ind <= 5
    ensures (1i32 << ind) == sh(ind)
{
    assert((1i32 << 0usize) == 1i32) by (bit_vector);
    assert((1i32 << 1usize) == 2i32) by (bit_vector);
    assert((1i32 << 2usize) == 4i32) by (bit_vector);
    assert((1i32 << 3usize) == 8i32) by (bit_vector);
    assert((1i32 << 4usize) == 16i32) by (bit_vector);
    assert((1i32 << 5usize) == 32i32) by (bit_vector);
}
proof fn lemma_flip_nocarry(t: u64, ind: usize)
    requires ind <= 5
    ensures
        ((t & vm(ind)) >> (sh(ind) as u64)) + ((t & !vm(ind)) << (sh(ind) as u64)) == flipw(t, ind),
        ((t & vm(ind)) >> (sh(ind) as u64)) + ((t & !vm(ind)) << (sh(ind) as u64)) <= u64::MAX,
{
    let m = vm(ind); let s = sh(ind) as u64;
    assert(
      ((ind == 0 && m == 0xaaaa_aaaa_aaaa_aaaau64 && s == 1) ||
       (ind == 1 && m == 0xcccc_cccc_cccc_ccccu64 && s == 2) ||
       (ind == 2 && m == 0xf0f0_f0f0_f0f0_f0f0u64 && s == 4) ||
       (ind == 3 && m == 0xff00_ff00_ff00_ff00u64 && s == 8) ||
       (ind == 4 && m == 0xffff_0000_ffff_0000u64 && s == 16) ||
       (ind == 5 && m == 0xffff_ffff_0000_0000u64 && s == 32)));
    assert(
      ((m == 0xaaaa_aaaa_aaaa_aaaau64 && s == 1) ||
       (m == 0xcccc_cccc_cccc_ccccu64 && s == 2) ||
       (m == 0xf0f0_f0f0_f0f0_f0f0u64 && s == 4) ||
       (m == 0xff00_ff00_ff00_ff00u64 && s == 8) ||
       (m == 0xffff_0000_ffff_0000u64 && s == 16) ||
       (m == 0xffff_ffff_0000_0000u64 && s == 32)) ==>
       (((t & m) >> s) & ((t & !m) << s)) == 0u64) by (bit_vector);
    let a = (t & m) >> s; let b = (t & !m) << s;
    assert(a & b == 0u64 ==> a <= sub(u64::MAX, b) && add(a, b) == a | b) by (bit_vector);
}

pub open spec fn sm(i: usize, j: usize) -> u64 {
    if i == 1 && j == 0 { 0x2222222222222222u64 }
    else if i == 2 && j == 0 { 0x0a0a0a0a0a0a0a0au64 }
    else if i == 2 && j == 1 { 0x0c0c0c0c0c0c0c0cu64 }
    else if i == 3 && j == 0 { 0x00aa00aa00aa00aau64 }
    else if i == 3 && j == 1 { 0x00cc00cc00cc00ccu64 }
    else if i == 3 && j == 2 { 0x00f000f000f000f0u64 }
    else if i == 4 && j == 0 { 0x0000aaaa0000aaaau64 }
    else if i == 4 && j == 1 { 0x0000cccc0000ccccu64 }
    else if i == 4 && j == 2 { 0x0000f0f00000f0f0u64 }
    else if i == 4 && j == 3 { 0x0000ff000000ff00u64 }
    else if i == 5 && j == 0 { 0x00000000aaaaaaaau64 }
    else if i == 5 && j == 1 { 0x00000000ccccccccu64 }
    else if i == 5 && j == 2 { 0x00000000f0f0f0f0u64 }
    else if i == 5 && j == 3 { 0x00000000ff00ff00u64 }
    else if i == 5 && j == 4 { 0x00000000ffff0000u64 }
    else { 0u64 }
}
pub open spec fn swapw(t: u64, i: usize, j: usize) -> u64 {
    let sh = ((1u64 << (i as u64)) - (1u64 << (j as u64))) as u64;
    let ml = sm(i, j);
    let mr = ml << sh;
    (t & !ml & !mr) | ((t & ml) << sh) | ((t & mr) >> sh)
}
// position k of the result reads position swapbits(k,i,j) of the argument
pub open spec fn swapbits64(k: u64, i: u64, j: u64) -> u64 {
    let bi = (k >> i) & 1; let bj = (k >> j) & 1;
    (k & !(1u64 << i) & !(1u64 << j)) | (bj << i) | (bi << j)
}
proof fn lemma_swapw_bit(t: u64, i: usize, j: usize, k: u64)
    requires j < i <= 5, k < 64
    ensures (swapw(t, i, j) >> k) & 1 == (t >> swapbits64(k, i as u64, j as u64)) & 1
{
    let ml = sm(i, j);
    let iu = i as u64; let ju = j as u64;
    let sh = ((1u64 << iu) - (1u64 << ju)) as u64;
    assert(ju < iu && iu <= 5 ==> (1u64 << iu) > (1u64 << ju) && sub((1u64 << iu), (1u64 << ju)) < 64) by (bit_vector);
    assert(sh == sub((1u64 << iu), (1u64 << ju)));
    assert(k < 64 && ju < iu && iu <= 5 && sh == sub((1u64 << iu), (1u64 << ju)) && (
        (iu == 1 && ju == 0 && ml == 0x2222222222222222u64) ||
        (iu == 2 && ju == 0 && ml == 0x0a0a0a0a0a0a0a0au64) ||
        (iu == 2 && ju == 1 && ml == 0x0c0c0c0c0c0c0c0cu64) ||
        (iu == 3 && ju == 0 && ml == 0x00aa00aa00aa00aau64) ||
        (iu == 3 && ju == 1 && ml == 0x00cc00cc00cc00ccu64) ||
        (iu == 3 && ju == 2 && ml == 0x00f000f000f000f0u64) ||
        (iu == 4 && ju == 0 && ml == 0x0000aaaa0000aaaau64) ||
        (iu == 4 && ju == 1 && ml == 0x0000cccc0000ccccu64) ||
        (iu == 4 && ju == 2 && ml == 0x0000f0f00000f0f0u64) ||
        (iu == 4 && ju == 3 && ml == 0x0000ff000000ff00u64) ||
        (iu == 5 && ju == 0 && ml == 0x00000000aaaaaaaau64) ||
        (iu == 5 && ju == 1 && ml == 0x00000000ccccccccu64) ||
        (iu == 5 && ju == 2 && ml == 0x00000000f0f0f0f0u64) ||
        (iu == 5 && ju == 3 && ml == 0x00000000ff00ff00u64) ||
        (iu == 5 && ju == 4 && ml == 0x00000000ffff0000u64))
      ==> ((((t & !ml & !(ml << sh)) | ((t & ml) << sh) | ((t & (ml << sh)) >> sh)) >> k) & 1)
           == (t >> ((k & !(1u64 << iu) & !(1u64 << ju)) | (((k >> ju) & 1) << iu) | (((k >> iu) & 1) << ju))) & 1
    ) by (bit_vector);
}

pub open spec fn shs(i: usize, j: usize) -> i32 { (sh(i) - sh(j)) as i32 }

proof fn lemma_shs(i: usize, j: usize)
    requires j < i <= 5
    ensures ((1i32 << i) - (1i32 << j)) == shs(i, j), 0 < shs(i, j) < 32,
        (shs(i, j) as u64) == ((1u64 << (i as u64)) - (1u64 << (j as u64))) as u64,
{
    lemma_sh(i); lemma_sh(j);
    let iu = i as u64; let ju = j as u64;
    assert(ju < iu && iu <= 5 ==> (1u64 << iu) > (1u64 << ju)) by (bit_vector);
    assert((1u64 << 0u64) == 1 && (1u64 << 1u64) == 2 && (1u64 << 2u64) == 4 && (1u64 << 3u64) == 8 && (1u64 << 4u64) == 16 && (1u64 << 5u64) == 32) by (bit_vector);
}

proof fn lemma_swapw_nocarry(t: u64, i: usize, j: usize)
    requires j < i <= 5
    ensures ({
        let s = shs(i, j) as u64; let ml = sm(i, j); let mr = ml << s;
        &&& (t & !ml & !mr) + ((t & ml) << s) <= u64::MAX
        &&& (t & !ml & !mr) + ((t & ml) << s) + ((t & mr) >> s) <= u64::MAX
        &&& (t & !ml & !mr) + ((t & ml) << s) + ((t & mr) >> s) == swapw(t, i, j)
    })
{
    lemma_shs(i, j);
    let s = shs(i, j) as u64; let ml = sm(i, j); let mr = ml << s;
    let iu = i as u64; let ju = j as u64;
    let a = t & !ml & !mr; let b = (t & ml) << s; let c = (t & mr) >> s;
    assert(ju < iu && iu <= 5 && s == sub((1u64 << iu), (1u64 << ju)) && mr == ml << s && (
        (iu == 1 && ju == 0 && ml == 0x2222222222222222u64) ||
        (iu == 2 && ju == 0 && ml == 0x0a0a0a0a0a0a0a0au64) ||
        (iu == 2 && ju == 1 && ml == 0x0c0c0c0c0c0c0c0cu64) ||
        (iu == 3 && ju == 0 && ml == 0x00aa00aa00aa00aau64) ||
        (iu == 3 && ju == 1 && ml == 0x00cc00cc00cc00ccu64) ||
        (iu == 3 && ju == 2 && ml == 0x00f000f000f000f0u64) ||
        (iu == 4 && ju == 0 && ml == 0x0000aaaa0000aaaau64) ||
        (iu == 4 && ju == 1 && ml == 0x0000cccc0000ccccu64) ||
        (iu == 4 && ju == 2 && ml == 0x0000f0f00000f0f0u64) ||
        (iu == 4 && ju == 3 && ml == 0x0000ff000000ff00u64) ||
        (iu == 5 && ju == 0 && ml == 0x00000000aaaaaaaau64) ||
        (iu == 5 && ju == 1 && ml == 0x00000000ccccccccu64) ||
        (iu == 5 && ju == 2 && ml == 0x00000000f0f0f0f0u64) ||
        (iu == 5 && ju == 3 && ml == 0x00000000ff00ff00u64) ||
        (iu == 5 && ju == 4 && ml == 0x00000000ffff0000u64))
      ==> ((t & !ml & !mr) & ((t & ml) << s)) == 0u64
          && (((t & !ml & !mr) | ((t & ml) << s)) & ((t & mr) >> s)) == 0u64
    ) by (bit_vector);
    assert(a & b == 0u64 ==> a <= sub(u64::MAX, b) && add(a, b) == a | b) by (bit_vector);
    let ab = (a | b) as u64;
    assert(ab & c == 0u64 ==> ab <= sub(u64::MAX, c) && add(ab, c) == ab | c) by (bit_vector);
}

proof fn lemma_shl_ok(ml: u64, i: usize, j: usize)
    requires j < i <= 5, ml == sm(i, j)
    ensures true
{}
pub open spec fn is_mixed(w: usize, mi: usize, mj: usize) -> bool { ((w & mi) == 0) != ((w & mj) == 0) }
// the smaller element of the pair {w, w ^ mi ^ mj} when w is mixed (mi bit clear, mj bit set)
pub open spec fn pair_low(w: usize, mi: usize, mj: usize) -> usize { (w & !mi) | mj }

proof fn lemma_pair(w: usize, k: usize, ei: usize, ej: usize, ne: usize)
    requires ej < ei < ne < 58, w < (1usize << ne)
    ensures ({
        let mi = 1usize << ei; let mj = 1usize << ej;
        &&& (w ^ mi ^ mj) < (1usize << ne)
        &&& is_mixed(w, mi, mj) == is_mixed((w ^ mi ^ mj) as usize, mi, mj)
        &&& is_mixed(w, mi, mj) ==> pair_low((w ^ mi ^ mj) as usize, mi, mj) == pair_low(w, mi, mj)
        &&& is_mixed(w, mi, mj) ==> (pair_low(w, mi, mj) == w || pair_low(w, mi, mj) == (w ^ mi ^ mj))
        &&& is_mixed(w, mi, mj) ==> pair_low(w, mi, mj) < (1usize << ne)
        &&& ((w ^ mi ^ mj) ^ mi ^ mj) == w
        &&& (w ^ mi ^ mj) != w
        &&& ((mi & w) == 0 && (mj & w) != 0) ==> (w >= mj && sub(w, mj) <= sub(usize::MAX, mi) && add(sub(w, mj), mi) == (w ^ mi ^ mj)
               && pair_low(w, mi, mj) == w && is_mixed(w, mi, mj) && add(sub(w, mj), mi) < (1usize << ne))
        &&& (is_mixed(w, mi, mj) && pair_low(w, mi, mj) == w) ==> ((mi & w) == 0 && (mj & w) != 0)
        &&& (mi & w) == (w & mi) && (mj & w) == (w & mj)
    })
{
    let mi = 1usize << ei; let mj = 1usize << ej; let top = 1usize << ne;
    assert(ej < ei && ei < ne && ne < 58 && w < top && mi == 1usize << ei && mj == 1usize << ej && top == 1usize << ne ==> (
        (w ^ mi ^ mj) < top
        && ((((w & mi) == 0) != ((w & mj) == 0)) == ((((w ^ mi ^ mj) & mi) == 0) != (((w ^ mi ^ mj) & mj) == 0)))
        && ((((w & mi) == 0) != ((w & mj) == 0)) ==> ((((w ^ mi ^ mj) & !mi) | mj) == ((w & !mi) | mj)))
        && ((((w & mi) == 0) != ((w & mj) == 0)) ==> (((w & !mi) | mj) == w || ((w & !mi) | mj) == (w ^ mi ^ mj)))
        && ((((w & mi) == 0) != ((w & mj) == 0)) ==> ((w & !mi) | mj) < top)
        && ((w ^ mi ^ mj) ^ mi ^ mj) == w
        && (w ^ mi ^ mj) != w
        && (((mi & w) == 0 && (mj & w) != 0) ==> (w >= mj && sub(w, mj) <= sub(usize::MAX, mi) && add(sub(w, mj), mi) == (w ^ mi ^ mj)
               && ((w & !mi) | mj) == w && (((w & mi) == 0) != ((w & mj) == 0)) && add(sub(w, mj), mi) < top))
        && (((((w & mi) == 0) != ((w & mj) == 0)) && ((w & !mi) | mj) == w) ==> ((mi & w) == 0 && (mj & w) != 0))
        && (mi & w) == (w & mi) && (mj & w) == (w & mj)
    )) by (bit_vector);
}


pub open spec fn cross_lo(t0: u64, t1: u64, j: usize) -> u64 { (t0 & !vm(j)) | ((t1 & !vm(j)) << (sh(j) as u64)) }
pub open spec fn cross_hi(t0: u64, t1: u64, j: usize) -> u64 { ((t0 & vm(j)) >> (sh(j) as u64)) | (t1 & vm(j)) }

proof fn lemma_cross_nocarry(t0: u64, t1: u64, j: usize)
    requires j <= 5
    ensures ({
        let m = vm(j); let s = sh(j) as u64;
        &&& (t0 & !m) + ((t1 & !m) << s) <= u64::MAX
        &&& (t0 & !m) + ((t1 & !m) << s) == cross_lo(t0, t1, j)
        &&& ((t0 & m) >> s) + (((t1 & m) >> s) << s) <= u64::MAX
        &&& ((t0 & m) >> s) + (((t1 & m) >> s) << s) == cross_hi(t0, t1, j)
    })
{
    let m = vm(j); let s = sh(j) as u64;
    assert(
      ((m == 0xaaaa_aaaa_aaaa_aaaau64 && s == 1) ||
       (m == 0xcccc_cccc_cccc_ccccu64 && s == 2) ||
       (m == 0xf0f0_f0f0_f0f0_f0f0u64 && s == 4) ||
       (m == 0xff00_ff00_ff00_ff00u64 && s == 8) ||
       (m == 0xffff_0000_ffff_0000u64 && s == 16) ||
       (m == 0xffff_ffff_0000_0000u64 && s == 32)) ==>
       ((t0 & !m) & ((t1 & !m) << s)) == 0u64
       && (((t0 & m) >> s) & (((t1 & m) >> s) << s)) == 0u64
       && (((t1 & m) >> s) << s) == (t1 & m)) by (bit_vector);
    let a = t0 & !m; let b = (t1 & !m) << s;
    assert(a & b == 0u64 ==> a <= sub(u64::MAX, b) && add(a, b) == a | b) by (bit_vector);
    let c = (t0 & m) >> s; let d = ((t1 & m) >> s) << s;
    assert(c & d == 0u64 ==> c <= sub(u64::MAX, d) && add(c, d) == c | d) by (bit_vector);
}

proof fn lemma_stride3(w: usize, e: usize, ne: usize)
    requires e < ne < 58, w < (1usize << ne)
    ensures ({
        let s = 1usize << e;
        &&& (w | s) < (1usize << ne)
        &&& ((w & !s) | s) == (w | s)
        &&& (w & s) == 0 ==> (w | s) == (w ^ s) && (w & !s) == w
        &&& (w & s) != 0 ==> (w | s) == w && (w & !s) == (w ^ s)
        &&& ((w & !s) & s) == 0
        &&& ((w & !s) | s) & !s == (w & !s)
    })
{
    let s = 1usize << e; let top = 1usize << ne;
    assert(e < ne && ne < 58 && w < top && s == 1usize << e && top == 1usize << ne ==> (
        (w | s) < top
        && ((w & !s) | s) == (w | s)
        && ((w & s) == 0 ==> (w | s) == (w ^ s) && (w & !s) == w)
        && ((w & s) != 0 ==> (w | s) == w && (w & !s) == (w ^ s))
        && ((w & !s) & s) == 0
        && (((w & !s) | s) & !s) == (w & !s)
    )) by (bit_vector);
}

pub open spec fn cof0w(t: u64, ind: usize) -> u64 { (t & !vm(ind)) | ((t & !vm(ind)) << (sh(ind) as u64)) }
pub open spec fn cof1w(t: u64, ind: usize) -> u64 { ((t & vm(ind)) >> (sh(ind) as u64)) | (t & vm(ind)) }
pub open spec fn mergew(t0: u64, t1: u64, ind: usize) -> u64 { (t1 & vm(ind)) | (t0 & !vm(ind)) }

proof fn lemma_cof_nocarry(t: u64, t2: u64, ind: usize)
    requires ind <= 5
    ensures ({
        let m = vm(ind); let s = sh(ind) as u64;
        &&& (t & !m) + ((t & !m) << s) <= u64::MAX
        &&& (t & !m) + ((t & !m) << s) == cof0w(t, ind)
        &&& ((t & m) >> s) + (t & m) <= u64::MAX
        &&& ((t & m) >> s) + (t & m) == cof1w(t, ind)
        &&& (t2 & m) + (t & !m) <= u64::MAX
        &&& (t2 & m) + (t & !m) == mergew(t, t2, ind)
    })
{
    let m = vm(ind); let s = sh(ind) as u64;
    assert(
      ((m == 0xaaaa_aaaa_aaaa_aaaau64 && s == 1) ||
       (m == 0xcccc_cccc_cccc_ccccu64 && s == 2) ||
       (m == 0xf0f0_f0f0_f0f0_f0f0u64 && s == 4) ||
       (m == 0xff00_ff00_ff00_ff00u64 && s == 8) ||
       (m == 0xffff_0000_ffff_0000u64 && s == 16) ||
       (m == 0xffff_ffff_0000_0000u64 && s == 32)) ==>
       ((t & !m) & ((t & !m) << s)) == 0u64
       && (((t & m) >> s) & (t & m)) == 0u64
       && ((t2 & m) & (t & !m)) == 0u64) by (bit_vector);
    let a = t & !m; let b = (t & !m) << s;
    assert(a & b == 0u64 ==> a <= sub(u64::MAX, b) && add(a, b) == a | b) by (bit_vector);
    let c = (t & m) >> s; let d = t & m;
    assert(c & d == 0u64 ==> c <= sub(u64::MAX, d) && add(c, d) == c | d) by (bit_vector);
    let e = t2 & m; let f = t & !m;
    assert(e & f == 0u64 ==> e <= sub(u64::MAX, f) && add(e, f) == e | f) by (bit_vector);
}
pub open spec fn nmask(n: usize) -> u64 {
    if n == 0 { 0x1u64 } else if n == 1 { 0x3u64 } else if n == 2 { 0xfu64 } else if n == 3 { 0xffu64 }
    else if n == 4 { 0xffffu64 } else if n == 5 { 0xffff_ffffu64 } else { 0xffff_ffff_ffff_ffffu64 }
}
pub open spec fn wf(n: usize, t: Seq<u64>) -> bool { t.len() == tsize(n) && (n < 6 ==> (t[0] & !nmask(n)) == 0) }


proof fn lemma_mask_wf(x: u64, n: usize)
    ensures ((nmask(n) & x) & !nmask(n)) == 0, (nmask(n) & !nmask(n)) == 0
{
    let m = nmask(n);
    assert(((m & x) & !m) == 0 && (m & !m) == 0) by (bit_vector);
}
proof fn lemma_zero_wf(n: usize)
    ensures (0u64 & !nmask(n)) == 0
{
    let m = nmask(n);
    assert((0u64 & !m) == 0) by (bit_vector);
}
proof fn lemma_tsize_pos(n: usize)
    requires n < 64
    ensures tsize(n) >= 1
{
    let e = (n - 6) as usize;
    assert(n > 6 && n < 64 && e == n - 6 ==> (1usize << e) >= 1) by (bit_vector);
}
proof fn lemma_bit_index(n: usize, ind: usize)
    requires n < 64, ind < (1usize << n)
    ensures (ind >> 6) < tsize(n), (ind & 0x3f) < 64,
        n < 6 ==> (ind >> 6) == 0 && ((1u64 << ((ind & 0x3f) as u64)) & !nmask(n)) == 0,
{
    let e = if n > 6 { (n - 6) as usize } else { 0usize };
    assert(n < 64 && ind < (1usize << n) && e == (if n > 6 { (n - 6) as usize } else { 0usize }) ==>
        (ind >> 6) < (if n <= 6 { 1usize } else { 1usize << e }) && (ind & 0x3f) < 64 && (n < 6 ==> (ind >> 6) == 0)) by (bit_vector);
    if n < 6 {
        let m = nmask(n); let k = (ind & 0x3f) as u64;
        assert(n < 6 && ind < (1usize << n) ==> (ind & 0x3f) == ind && ind < 32) by (bit_vector);
        assert(((n == 0 && m == 0x1u64 && k < 1) || (n == 1 && m == 0x3u64 && k < 2) || (n == 2 && m == 0xfu64 && k < 4)
             || (n == 3 && m == 0xffu64 && k < 8) || (n == 4 && m == 0xffffu64 && k < 16) || (n == 5 && m == 0xffff_ffffu64 && k < 32))
            ==> ((1u64 << k) & !m) == 0) by (bit_vector);
        assert(n == 0 ==> ind < 1) by { assert((1usize << 0usize) == 1) by (bit_vector); }
        assert(n == 1 ==> ind < 2) by { assert((1usize << 1usize) == 2) by (bit_vector); }
        assert(n == 2 ==> ind < 4) by { assert((1usize << 2usize) == 4) by (bit_vector); }
        assert(n == 3 ==> ind < 8) by { assert((1usize << 3usize) == 8) by (bit_vector); }
        assert(n == 4 ==> ind < 16) by { assert((1usize << 4usize) == 16) by (bit_vector); }
        assert(n == 5 ==> ind < 32) by { assert((1usize << 5usize) == 32) by (bit_vector); }
    }
}

// ---------------------------------------------------------------------------------------------
// Assignment-level vocabulary (what `value(m)` returns) and bridges from the word-level contracts
pub open spec fn bitu(t: Seq<u64>, m: usize) -> bool { ((t[(m >> 6) as int] >> ((m & 63) as u64)) & 1) == 1 }

proof fn lemma_flipw_bit(t: u64, ind: usize, k: u64)
    requires ind <= 5, k < 64
    ensures (flipw(t, ind) >> k) & 1 == (t >> (k ^ (1u64 << (ind as u64)))) & 1
{
    let m = vm(ind); let s = sh(ind) as u64; let iu = ind as u64;
    assert(k < 64 && (
       (iu == 0 && m == 0xaaaa_aaaa_aaaa_aaaau64 && s == 1) ||
       (iu == 1 && m == 0xcccc_cccc_cccc_ccccu64 && s == 2) ||
       (iu == 2 && m == 0xf0f0_f0f0_f0f0_f0f0u64 && s == 4) ||
       (iu == 3 && m == 0xff00_ff00_ff00_ff00u64 && s == 8) ||
       (iu == 4 && m == 0xffff_0000_ffff_0000u64 && s == 16) ||
       (iu == 5 && m == 0xffff_ffff_0000_0000u64 && s == 32)) ==>
       ((((t & m) >> s) | ((t & !m) << s)) >> k) & 1 == (t >> (k ^ (1u64 << iu))) & 1) by (bit_vector);
}

proof fn lemma_cofw_bit(t: u64, t2: u64, ind: usize, k: u64)
    requires ind <= 5, k < 64
    ensures
        (cof0w(t, ind) >> k) & 1 == (t >> (k & !(1u64 << (ind as u64)))) & 1,
        (cof1w(t, ind) >> k) & 1 == (t >> (k | (1u64 << (ind as u64)))) & 1,
        (mergew(t, t2, ind) >> k) & 1 == (if (k >> (ind as u64)) & 1 == 1 { (t2 >> k) & 1 } else { (t >> k) & 1 }),
{
    let m = vm(ind); let s = sh(ind) as u64; let iu = ind as u64;
    assert(k < 64 && (
       (iu == 0 && m == 0xaaaa_aaaa_aaaa_aaaau64 && s == 1) ||
       (iu == 1 && m == 0xcccc_cccc_cccc_ccccu64 && s == 2) ||
       (iu == 2 && m == 0xf0f0_f0f0_f0f0_f0f0u64 && s == 4) ||
       (iu == 3 && m == 0xff00_ff00_ff00_ff00u64 && s == 8) ||
       (iu == 4 && m == 0xffff_0000_ffff_0000u64 && s == 16) ||
       (iu == 5 && m == 0xffff_ffff_0000_0000u64 && s == 32)) ==>
       ((((t & !m) | ((t & !m) << s)) >> k) & 1 == (t >> (k & !(1u64 << iu))) & 1)
       && (((((t & m) >> s) | (t & m)) >> k) & 1 == (t >> (k | (1u64 << iu))) & 1)
       && ((((t2 & m) | (t & !m)) >> k) & 1 == (if (k >> iu) & 1 == 1 { (t2 >> k) & 1 } else { (t >> k) & 1 }))
    ) by (bit_vector);
}

// index arithmetic shared by the bridges: word / bit position of an assignment and of its neighbours
proof fn lemma_assign_index(n: usize, ind: usize, m: usize)
    requires n < 64, ind < n, m < (1usize << n)
    ensures ({
        let b = 1usize << ind;
        &&& (m >> 6) < tsize(n)
        &&& (m & 63) < 64
        &&& (m ^ b) < (1usize << n) && (m & !b) < (1usize << n) && (m | b) < (1usize << n)
        &&& ind <= 5 ==> ((m ^ b) >> 6) == (m >> 6) && ((m ^ b) & 63) == ((m & 63) ^ b)
                      && ((m & !b) >> 6) == (m >> 6) && ((m & !b) & 63) == ((m & 63) & !b)
                      && ((m | b) >> 6) == (m >> 6) && ((m | b) & 63) == ((m & 63) | b)
                      && ((m >> ind) & 1) == (((m & 63) >> ind) & 1)
        &&& ind >= 6 ==> ({
                let s = 1usize << ((ind - 6) as usize);
                &&& ((m ^ b) >> 6) == ((m >> 6) ^ s) && ((m ^ b) & 63) == (m & 63)
                &&& ((m & !b) >> 6) == ((m >> 6) & !s) && ((m & !b) & 63) == (m & 63)
                &&& ((m | b) >> 6) == ((m >> 6) | s) && ((m | b) & 63) == (m & 63)
                &&& (((m >> ind) & 1) == 1) == (((m >> 6) & s) != 0)
            })
    })
{
    let e = if n > 6 { (n - 6) as usize } else { 0usize };
    let b = 1usize << ind;
    let s = if ind >= 6 { 1usize << ((ind - 6) as usize) } else { 0usize };
    assert(n < 64 && ind < n && m < (1usize << n) && e == (if n > 6 { (n - 6) as usize } else { 0usize }) && b == 1usize << ind
           && s == (if ind >= 6 { 1usize << ((ind - 6) as usize) } else { 0usize }) ==> (
        (m >> 6) < (if n <= 6 { 1usize } else { 1usize << e })
        && (m & 63) < 64
        && (m ^ b) < (1usize << n) && (m & !b) < (1usize << n) && (m | b) < (1usize << n)
        && (ind <= 5 ==> ((m ^ b) >> 6) == (m >> 6) && ((m ^ b) & 63) == ((m & 63) ^ b)
                      && ((m & !b) >> 6) == (m >> 6) && ((m & !b) & 63) == ((m & 63) & !b)
                      && ((m | b) >> 6) == (m >> 6) && ((m | b) & 63) == ((m & 63) | b)
                      && ((m >> ind) & 1) == (((m & 63) >> ind) & 1))
        && (ind >= 6 ==> ((m ^ b) >> 6) == ((m >> 6) ^ s) && ((m ^ b) & 63) == (m & 63)
                      && ((m & !b) >> 6) == ((m >> 6) & !s) && ((m & !b) & 63) == (m & 63)
                      && ((m | b) >> 6) == ((m >> 6) | s) && ((m | b) & 63) == (m & 63)
                      && ((((m >> ind) & 1) == 1) == (((m >> 6) & s) != 0)))
    )) by (bit_vector);
}

// assignment-level statements derived from the word-level contracts of the kernels
pub proof fn lemma_flip_bits(n: usize, old_t: Seq<u64>, new_t: Seq<u64>, ind: usize, m: usize)
    requires n < 64, ind < n, old_t.len() == tsize(n), new_t.len() == old_t.len(), m < (1usize << n),
        ind <= 5 ==> forall|w: int| 0 <= w < old_t.len() ==> #[trigger] new_t[w] == flipw(old_t[w], ind),
        ind >= 6 ==> forall|w: int| 0 <= w < old_t.len() ==> #[trigger] new_t[w] == old_t[((w as usize) ^ (1usize << ((ind - 6) as usize))) as int],
    ensures bitu(new_t, m) == bitu(old_t, (m ^ (1usize << ind)) as usize), (m ^ (1usize << ind)) < (1usize << n),
{
    lemma_assign_index(n, ind, m);
    let w = m >> 6; let k = (m & 63) as u64;
    assert(new_t[w as int] == new_t[w as int]);
    if ind <= 5 {
        let t = old_t[w as int];
        assert(new_t[w as int] == flipw(t, ind));
        lemma_flipw_bit(t, ind, k);
        let iu = ind as u64; let b = 1usize << ind;
        assert(ind <= 5 && k == (m & 63) as u64 && iu == ind as u64 && b == 1usize << ind ==> (((m & 63) ^ b) as u64) == (k ^ (1u64 << iu))) by (bit_vector);
    } else {
        assert(new_t[w as int] == old_t[((w as usize) ^ (1usize << ((ind - 6) as usize))) as int]);
    }
}

pub proof fn lemma_cof0_bits(n: usize, old_t: Seq<u64>, new_t: Seq<u64>, ind: usize, m: usize)
    requires n < 64, ind < n, old_t.len() == tsize(n), new_t.len() == old_t.len(), m < (1usize << n),
        ind <= 5 ==> forall|w: int| 0 <= w < old_t.len() ==> #[trigger] new_t[w] == cof0w(old_t[w], ind),
        ind >= 6 ==> forall|w: int| 0 <= w < old_t.len() ==> #[trigger] new_t[w] == old_t[((w as usize) & !(1usize << ((ind - 6) as usize))) as int],
    ensures bitu(new_t, m) == bitu(old_t, (m & !(1usize << ind)) as usize), (m & !(1usize << ind)) < (1usize << n),
{
    lemma_assign_index(n, ind, m);
    let w = m >> 6; let k = (m & 63) as u64;
    assert(new_t[w as int] == new_t[w as int]);
    if ind <= 5 {
        let t = old_t[w as int];
        assert(new_t[w as int] == cof0w(t, ind));
        lemma_cofw_bit(t, t, ind, k);
        let iu = ind as u64; let b = 1usize << ind;
        assert(ind <= 5 && k == (m & 63) as u64 && iu == ind as u64 && b == 1usize << ind ==> (((m & 63) & !b) as u64) == (k & !(1u64 << iu))) by (bit_vector);
    } else {
        assert(new_t[w as int] == old_t[((w as usize) & !(1usize << ((ind - 6) as usize))) as int]);
    }
}

pub proof fn lemma_cof1_bits(n: usize, old_t: Seq<u64>, new_t: Seq<u64>, ind: usize, m: usize)
    requires n < 64, ind < n, old_t.len() == tsize(n), new_t.len() == old_t.len(), m < (1usize << n),
        ind <= 5 ==> forall|w: int| 0 <= w < old_t.len() ==> #[trigger] new_t[w] == cof1w(old_t[w], ind),
        ind >= 6 ==> forall|w: int| 0 <= w < old_t.len() ==> #[trigger] new_t[w] == old_t[((w as usize) | (1usize << ((ind - 6) as usize))) as int],
    ensures bitu(new_t, m) == bitu(old_t, (m | (1usize << ind)) as usize), (m | (1usize << ind)) < (1usize << n),
{
    lemma_assign_index(n, ind, m);
    let w = m >> 6; let k = (m & 63) as u64;
    assert(new_t[w as int] == new_t[w as int]);
    if ind <= 5 {
        let t = old_t[w as int];
        assert(new_t[w as int] == cof1w(t, ind));
        lemma_cofw_bit(t, t, ind, k);
        let iu = ind as u64; let b = 1usize << ind;
        assert(ind <= 5 && k == (m & 63) as u64 && iu == ind as u64 && b == 1usize << ind ==> (((m & 63) | b) as u64) == (k | (1u64 << iu))) by (bit_vector);
    } else {
        assert(new_t[w as int] == old_t[((w as usize) | (1usize << ((ind - 6) as usize))) as int]);
    }
}

pub proof fn lemma_merge_bits(n: usize, t0: Seq<u64>, t1: Seq<u64>, new_t: Seq<u64>, ind: usize, m: usize)
    requires n < 64, ind < n, t0.len() == tsize(n), t1.len() == tsize(n), new_t.len() == tsize(n), m < (1usize << n),
        ind <= 5 ==> forall|w: int| 0 <= w < new_t.len() ==> #[trigger] new_t[w] == mergew(t0[w], t1[w], ind),
        ind >= 6 ==> forall|w: int| 0 <= w < new_t.len() ==> #[trigger] new_t[w] ==
            (if ((w as usize) & (1usize << ((ind - 6) as usize))) == 0 { t0[w] } else { t1[w] }),
    ensures bitu(new_t, m) == (if ((m >> ind) & 1) == 1 { bitu(t1, m) } else { bitu(t0, m) }),
{
    lemma_assign_index(n, ind, m);
    let w = m >> 6; let k = (m & 63) as u64;
    assert(new_t[w as int] == new_t[w as int]);
    if ind <= 5 {
        assert(new_t[w as int] == mergew(t0[w as int], t1[w as int], ind));
        lemma_cofw_bit(t0[w as int], t1[w as int], ind, k);
        let iu = ind as u64;
        assert(ind <= 5 && k == (m & 63) as u64 && iu == ind as u64 ==> ((((m & 63) >> ind) & 1) == 1) == (((k >> iu) & 1) == 1)) by (bit_vector);
    } else {
    }
}

pub proof fn lemma_not_bits(n: usize, old_t: Seq<u64>, new_t: Seq<u64>, m: usize)
    requires n < 64, wf(n, old_t), new_t.len() == old_t.len(), m < (1usize << n),
        forall|w: int| 0 <= w < old_t.len() ==> #[trigger] new_t[w] == nmask(n) & !old_t[w],
    ensures bitu(new_t, m) == !bitu(old_t, m),
{
    lemma_bit_index(n, m);
    let w = m >> 6; let k = (m & 63) as u64;
    let x = old_t[w as int]; let mk = nmask(n);
    assert(new_t[w as int] == mk & !x);
    // bit k lies inside the mask
    assert(((1u64 << k) & !mk) == 0 && k < 64 ==> (((mk & !x) >> k) & 1 == 1) == !((x >> k) & 1 == 1)) by (bit_vector);
    if n >= 6 {
        assert(k < 64 ==> ((1u64 << k) & !0xffff_ffff_ffff_ffffu64) == 0) by (bit_vector);
    }
}

// representation invariant (no bit at a position >= 2^n) is preserved by the per-word actions, n < 6
proof fn lemma_word_wf(t: u64, t2: u64, n: usize, ind: usize)
    requires ind < n < 6, (t & !nmask(n)) == 0, (t2 & !nmask(n)) == 0
    ensures (flipw(t, ind) & !nmask(n)) == 0, (cof0w(t, ind) & !nmask(n)) == 0, (cof1w(t, ind) & !nmask(n)) == 0,
        (mergew(t, t2, ind) & !nmask(n)) == 0,
{
    let m = vm(ind); let s = sh(ind) as u64; let k = nmask(n);
    if n == 1 && ind == 0 {
        assert(m == 0xaaaa_aaaa_aaaa_aaaau64 && s == 1 && k == 0x3u64 && (t & !k) == 0 && (t2 & !k) == 0 ==>
            ((((t & m) >> s) | ((t & !m) << s)) & !k) == 0 && (((t & !m) | ((t & !m) << s)) & !k) == 0
            && ((((t & m) >> s) | (t & m)) & !k) == 0 && (((t2 & m) | (t & !m)) & !k) == 0) by (bit_vector);
    }
    if n == 2 && ind == 0 {
        assert(m == 0xaaaa_aaaa_aaaa_aaaau64 && s == 1 && k == 0xfu64 && (t & !k) == 0 && (t2 & !k) == 0 ==>
            ((((t & m) >> s) | ((t & !m) << s)) & !k) == 0 && (((t & !m) | ((t & !m) << s)) & !k) == 0
            && ((((t & m) >> s) | (t & m)) & !k) == 0 && (((t2 & m) | (t & !m)) & !k) == 0) by (bit_vector);
    }
    if n == 2 && ind == 1 {
        assert(m == 0xcccc_cccc_cccc_ccccu64 && s == 2 && k == 0xfu64 && (t & !k) == 0 && (t2 & !k) == 0 ==>
            ((((t & m) >> s) | ((t & !m) << s)) & !k) == 0 && (((t & !m) | ((t & !m) << s)) & !k) == 0
            && ((((t & m) >> s) | (t & m)) & !k) == 0 && (((t2 & m) | (t & !m)) & !k) == 0) by (bit_vector);
    }
    if n == 3 && ind == 0 {
        assert(m == 0xaaaa_aaaa_aaaa_aaaau64 && s == 1 && k == 0xffu64 && (t & !k) == 0 && (t2 & !k) == 0 ==>
            ((((t & m) >> s) | ((t & !m) << s)) & !k) == 0 && (((t & !m) | ((t & !m) << s)) & !k) == 0
            && ((((t & m) >> s) | (t & m)) & !k) == 0 && (((t2 & m) | (t & !m)) & !k) == 0) by (bit_vector);
    }
    if n == 3 && ind == 1 {
        assert(m == 0xcccc_cccc_cccc_ccccu64 && s == 2 && k == 0xffu64 && (t & !k) == 0 && (t2 & !k) == 0 ==>
            ((((t & m) >> s) | ((t & !m) << s)) & !k) == 0 && (((t & !m) | ((t & !m) << s)) & !k) == 0
            && ((((t & m) >> s) | (t & m)) & !k) == 0 && (((t2 & m) | (t & !m)) & !k) == 0) by (bit_vector);
    }
    if n == 3 && ind == 2 {
        assert(m == 0xf0f0_f0f0_f0f0_f0f0u64 && s == 4 && k == 0xffu64 && (t & !k) == 0 && (t2 & !k) == 0 ==>
            ((((t & m) >> s) | ((t & !m) << s)) & !k) == 0 && (((t & !m) | ((t & !m) << s)) & !k) == 0
            && ((((t & m) >> s) | (t & m)) & !k) == 0 && (((t2 & m) | (t & !m)) & !k) == 0) by (bit_vector);
    }
    if n == 4 && ind == 0 {
        assert(m == 0xaaaa_aaaa_aaaa_aaaau64 && s == 1 && k == 0xffffu64 && (t & !k) == 0 && (t2 & !k) == 0 ==>
            ((((t & m) >> s) | ((t & !m) << s)) & !k) == 0 && (((t & !m) | ((t & !m) << s)) & !k) == 0
            && ((((t & m) >> s) | (t & m)) & !k) == 0 && (((t2 & m) | (t & !m)) & !k) == 0) by (bit_vector);
    }
    if n == 4 && ind == 1 {
        assert(m == 0xcccc_cccc_cccc_ccccu64 && s == 2 && k == 0xffffu64 && (t & !k) == 0 && (t2 & !k) == 0 ==>
            ((((t & m) >> s) | ((t & !m) << s)) & !k) == 0 && (((t & !m) | ((t & !m) << s)) & !k) == 0
            && ((((t & m) >> s) | (t & m)) & !k) == 0 && (((t2 & m) | (t & !m)) & !k) == 0) by (bit_vector);
    }
    if n == 4 && ind == 2 {
        assert(m == 0xf0f0_f0f0_f0f0_f0f0u64 && s == 4 && k == 0xffffu64 && (t & !k) == 0 && (t2 & !k) == 0 ==>
            ((((t & m) >> s) | ((t & !m) << s)) & !k) == 0 && (((t & !m) | ((t & !m) << s)) & !k) == 0
            && ((((t & m) >> s) | (t & m)) & !k) == 0 && (((t2 & m) | (t & !m)) & !k) == 0) by (bit_vector);
    }
    if n == 4 && ind == 3 {
        assert(m == 0xff00_ff00_ff00_ff00u64 && s == 8 && k == 0xffffu64 && (t & !k) == 0 && (t2 & !k) == 0 ==>
            ((((t & m) >> s) | ((t & !m) << s)) & !k) == 0 && (((t & !m) | ((t & !m) << s)) & !k) == 0
            && ((((t & m) >> s) | (t & m)) & !k) == 0 && (((t2 & m) | (t & !m)) & !k) == 0) by (bit_vector);
    }
    if n == 5 && ind == 0 {
        assert(m == 0xaaaa_aaaa_aaaa_aaaau64 && s == 1 && k == 0xffff_ffffu64 && (t & !k) == 0 && (t2 & !k) == 0 ==>
            ((((t & m) >> s) | ((t & !m) << s)) & !k) == 0 && (((t & !m) | ((t & !m) << s)) & !k) == 0
            && ((((t & m) >> s) | (t & m)) & !k) == 0 && (((t2 & m) | (t & !m)) & !k) == 0) by (bit_vector);
    }
    if n == 5 && ind == 1 {
        assert(m == 0xcccc_cccc_cccc_ccccu64 && s == 2 && k == 0xffff_ffffu64 && (t & !k) == 0 && (t2 & !k) == 0 ==>
            ((((t & m) >> s) | ((t & !m) << s)) & !k) == 0 && (((t & !m) | ((t & !m) << s)) & !k) == 0
            && ((((t & m) >> s) | (t & m)) & !k) == 0 && (((t2 & m) | (t & !m)) & !k) == 0) by (bit_vector);
    }
    if n == 5 && ind == 2 {
        assert(m == 0xf0f0_f0f0_f0f0_f0f0u64 && s == 4 && k == 0xffff_ffffu64 && (t & !k) == 0 && (t2 & !k) == 0 ==>
            ((((t & m) >> s) | ((t & !m) << s)) & !k) == 0 && (((t & !m) | ((t & !m) << s)) & !k) == 0
            && ((((t & m) >> s) | (t & m)) & !k) == 0 && (((t2 & m) | (t & !m)) & !k) == 0) by (bit_vector);
    }
    if n == 5 && ind == 3 {
        assert(m == 0xff00_ff00_ff00_ff00u64 && s == 8 && k == 0xffff_ffffu64 && (t & !k) == 0 && (t2 & !k) == 0 ==>
            ((((t & m) >> s) | ((t & !m) << s)) & !k) == 0 && (((t & !m) | ((t & !m) << s)) & !k) == 0
            && ((((t & m) >> s) | (t & m)) & !k) == 0 && (((t2 & m) | (t & !m)) & !k) == 0) by (bit_vector);
    }
    if n == 5 && ind == 4 {
        assert(m == 0xffff_0000_ffff_0000u64 && s == 16 && k == 0xffff_ffffu64 && (t & !k) == 0 && (t2 & !k) == 0 ==>
            ((((t & m) >> s) | ((t & !m) << s)) & !k) == 0 && (((t & !m) | ((t & !m) << s)) & !k) == 0
            && ((((t & m) >> s) | (t & m)) & !k) == 0 && (((t2 & m) | (t & !m)) & !k) == 0) by (bit_vector);
    }
}

proof fn lemma_swapw_wf(t: u64, n: usize, i: usize, j: usize)
    requires j < i < n < 6, (t & !nmask(n)) == 0
    ensures (swapw(t, i, j) & !nmask(n)) == 0
{
    let ml = sm(i, j); let k = nmask(n);
    let iu = i as u64; let ju = j as u64;
    let sh = ((1u64 << iu) - (1u64 << ju)) as u64;
    assert(ju < iu && iu <= 5 ==> (1u64 << iu) > (1u64 << ju)) by (bit_vector);
    assert(sh == sub((1u64 << iu), (1u64 << ju)));
    if n == 2 && i == 1 && j == 0 {
        assert(iu == 1 && ju == 0 && sh == sub((1u64 << iu), (1u64 << ju)) && ml == 0x2222222222222222u64 && k == 0xfu64 && (t & !k) == 0 ==>
            (((t & !ml & !(ml << sh)) | ((t & ml) << sh) | ((t & (ml << sh)) >> sh)) & !k) == 0) by (bit_vector);
    }
    if n == 3 && i == 1 && j == 0 {
        assert(iu == 1 && ju == 0 && sh == sub((1u64 << iu), (1u64 << ju)) && ml == 0x2222222222222222u64 && k == 0xffu64 && (t & !k) == 0 ==>
            (((t & !ml & !(ml << sh)) | ((t & ml) << sh) | ((t & (ml << sh)) >> sh)) & !k) == 0) by (bit_vector);
    }
    if n == 3 && i == 2 && j == 0 {
        assert(iu == 2 && ju == 0 && sh == sub((1u64 << iu), (1u64 << ju)) && ml == 0x0a0a0a0a0a0a0a0au64 && k == 0xffu64 && (t & !k) == 0 ==>
            (((t & !ml & !(ml << sh)) | ((t & ml) << sh) | ((t & (ml << sh)) >> sh)) & !k) == 0) by (bit_vector);
    }
    if n == 3 && i == 2 && j == 1 {
        assert(iu == 2 && ju == 1 && sh == sub((1u64 << iu), (1u64 << ju)) && ml == 0x0c0c0c0c0c0c0c0cu64 && k == 0xffu64 && (t & !k) == 0 ==>
            (((t & !ml & !(ml << sh)) | ((t & ml) << sh) | ((t & (ml << sh)) >> sh)) & !k) == 0) by (bit_vector);
    }
    if n == 4 && i == 1 && j == 0 {
        assert(iu == 1 && ju == 0 && sh == sub((1u64 << iu), (1u64 << ju)) && ml == 0x2222222222222222u64 && k == 0xffffu64 && (t & !k) == 0 ==>
            (((t & !ml & !(ml << sh)) | ((t & ml) << sh) | ((t & (ml << sh)) >> sh)) & !k) == 0) by (bit_vector);
    }
    if n == 4 && i == 2 && j == 0 {
        assert(iu == 2 && ju == 0 && sh == sub((1u64 << iu), (1u64 << ju)) && ml == 0x0a0a0a0a0a0a0a0au64 && k == 0xffffu64 && (t & !k) == 0 ==>
            (((t & !ml & !(ml << sh)) | ((t & ml) << sh) | ((t & (ml << sh)) >> sh)) & !k) == 0) by (bit_vector);
    }
    if n == 4 && i == 2 && j == 1 {
        assert(iu == 2 && ju == 1 && sh == sub((1u64 << iu), (1u64 << ju)) && ml == 0x0c0c0c0c0c0c0c0cu64 && k == 0xffffu64 && (t & !k) == 0 ==>
            (((t & !ml & !(ml << sh)) | ((t & ml) << sh) | ((t & (ml << sh)) >> sh)) & !k) == 0) by (bit_vector);
    }
    if n == 4 && i == 3 && j == 0 {
        assert(iu == 3 && ju == 0 && sh == sub((1u64 << iu), (1u64 << ju)) && ml == 0x00aa00aa00aa00aau64 && k == 0xffffu64 && (t & !k) == 0 ==>
            (((t & !ml & !(ml << sh)) | ((t & ml) << sh) | ((t & (ml << sh)) >> sh)) & !k) == 0) by (bit_vector);
    }
    if n == 4 && i == 3 && j == 1 {
        assert(iu == 3 && ju == 1 && sh == sub((1u64 << iu), (1u64 << ju)) && ml == 0x00cc00cc00cc00ccu64 && k == 0xffffu64 && (t & !k) == 0 ==>
            (((t & !ml & !(ml << sh)) | ((t & ml) << sh) | ((t & (ml << sh)) >> sh)) & !k) == 0) by (bit_vector);
    }
    if n == 4 && i == 3 && j == 2 {
        assert(iu == 3 && ju == 2 && sh == sub((1u64 << iu), (1u64 << ju)) && ml == 0x00f000f000f000f0u64 && k == 0xffffu64 && (t & !k) == 0 ==>
            (((t & !ml & !(ml << sh)) | ((t & ml) << sh) | ((t & (ml << sh)) >> sh)) & !k) == 0) by (bit_vector);
    }
    if n == 5 && i == 1 && j == 0 {
        assert(iu == 1 && ju == 0 && sh == sub((1u64 << iu), (1u64 << ju)) && ml == 0x2222222222222222u64 && k == 0xffff_ffffu64 && (t & !k) == 0 ==>
            (((t & !ml & !(ml << sh)) | ((t & ml) << sh) | ((t & (ml << sh)) >> sh)) & !k) == 0) by (bit_vector);
    }
    if n == 5 && i == 2 && j == 0 {
        assert(iu == 2 && ju == 0 && sh == sub((1u64 << iu), (1u64 << ju)) && ml == 0x0a0a0a0a0a0a0a0au64 && k == 0xffff_ffffu64 && (t & !k) == 0 ==>
            (((t & !ml & !(ml << sh)) | ((t & ml) << sh) | ((t & (ml << sh)) >> sh)) & !k) == 0) by (bit_vector);
    }
    if n == 5 && i == 2 && j == 1 {
        assert(iu == 2 && ju == 1 && sh == sub((1u64 << iu), (1u64 << ju)) && ml == 0x0c0c0c0c0c0c0c0cu64 && k == 0xffff_ffffu64 && (t & !k) == 0 ==>
            (((t & !ml & !(ml << sh)) | ((t & ml) << sh) | ((t & (ml << sh)) >> sh)) & !k) == 0) by (bit_vector);
    }
    if n == 5 && i == 3 && j == 0 {
        assert(iu == 3 && ju == 0 && sh == sub((1u64 << iu), (1u64 << ju)) && ml == 0x00aa00aa00aa00aau64 && k == 0xffff_ffffu64 && (t & !k) == 0 ==>
            (((t & !ml & !(ml << sh)) | ((t & ml) << sh) | ((t & (ml << sh)) >> sh)) & !k) == 0) by (bit_vector);
    }
    if n == 5 && i == 3 && j == 1 {
        assert(iu == 3 && ju == 1 && sh == sub((1u64 << iu), (1u64 << ju)) && ml == 0x00cc00cc00cc00ccu64 && k == 0xffff_ffffu64 && (t & !k) == 0 ==>
            (((t & !ml & !(ml << sh)) | ((t & ml) << sh) | ((t & (ml << sh)) >> sh)) & !k) == 0) by (bit_vector);
    }
    if n == 5 && i == 3 && j == 2 {
        assert(iu == 3 && ju == 2 && sh == sub((1u64 << iu), (1u64 << ju)) && ml == 0x00f000f000f000f0u64 && k == 0xffff_ffffu64 && (t & !k) == 0 ==>
            (((t & !ml & !(ml << sh)) | ((t & ml) << sh) | ((t & (ml << sh)) >> sh)) & !k) == 0) by (bit_vector);
    }
    if n == 5 && i == 4 && j == 0 {
        assert(iu == 4 && ju == 0 && sh == sub((1u64 << iu), (1u64 << ju)) && ml == 0x0000aaaa0000aaaau64 && k == 0xffff_ffffu64 && (t & !k) == 0 ==>
            (((t & !ml & !(ml << sh)) | ((t & ml) << sh) | ((t & (ml << sh)) >> sh)) & !k) == 0) by (bit_vector);
    }
    if n == 5 && i == 4 && j == 1 {
        assert(iu == 4 && ju == 1 && sh == sub((1u64 << iu), (1u64 << ju)) && ml == 0x0000cccc0000ccccu64 && k == 0xffff_ffffu64 && (t & !k) == 0 ==>
            (((t & !ml & !(ml << sh)) | ((t & ml) << sh) | ((t & (ml << sh)) >> sh)) & !k) == 0) by (bit_vector);
    }
    if n == 5 && i == 4 && j == 2 {
        assert(iu == 4 && ju == 2 && sh == sub((1u64 << iu), (1u64 << ju)) && ml == 0x0000f0f00000f0f0u64 && k == 0xffff_ffffu64 && (t & !k) == 0 ==>
            (((t & !ml & !(ml << sh)) | ((t & ml) << sh) | ((t & (ml << sh)) >> sh)) & !k) == 0) by (bit_vector);
    }
    if n == 5 && i == 4 && j == 3 {
        assert(iu == 4 && ju == 3 && sh == sub((1u64 << iu), (1u64 << ju)) && ml == 0x0000ff000000ff00u64 && k == 0xffff_ffffu64 && (t & !k) == 0 ==>
            (((t & !ml & !(ml << sh)) | ((t & ml) << sh) | ((t & (ml << sh)) >> sh)) & !k) == 0) by (bit_vector);
    }
}

// whole-table postcondition of swap (all three storage regimes), shared by swap_inplace, swap_adjacent_inplace and their callers
pub open spec fn swap_post(n: usize, o: Seq<u64>, f: Seq<u64>, ind1: usize, ind2: usize) -> bool {
    &&& f.len() == o.len()
    &&& ind1 == ind2 ==> f == o
    &&& ind1 != ind2 && ind1 <= 5 && ind2 <= 5 ==> forall|w: int| 0 <= w < o.len() ==>
            #[trigger] f[w] == swapw(o[w], if ind1 > ind2 { ind1 } else { ind2 }, if ind1 > ind2 { ind2 } else { ind1 })
    &&& ind1 != ind2 && (ind1 <= 5) != (ind2 <= 5) ==> forall|w: int| 0 <= w < o.len() ==>
            #[trigger] f[w] == ({
                let hi = if ind1 > ind2 { ind1 } else { ind2 }; let lo = if ind1 > ind2 { ind2 } else { ind1 };
                let mi = 1usize << ((hi - 6) as usize);
                let wu = w as usize;
                if (wu & mi) == 0 { cross_lo(o[(wu & !mi) as int], o[(wu | mi) as int], lo) }
                else { cross_hi(o[(wu & !mi) as int], o[(wu | mi) as int], lo) }
            })
    &&& ind1 != ind2 && ind1 >= 6 && ind2 >= 6 ==> forall|w: int| 0 <= w < o.len() ==>
            #[trigger] f[w] == (if is_mixed(w as usize, 1usize << ((ind1 - 6) as usize), 1usize << ((ind2 - 6) as usize))
                { o[((w as usize) ^ (1usize << ((ind1 - 6) as usize)) ^ (1usize << ((ind2 - 6) as usize))) as int] } else { o[w] })
}

proof fn lemma_wrap_succ(x: u64, y: u64, m: u64)
    requires y == (if x + 1 > u64::MAX { (x + 1 - 0x1_0000_0000_0000_0000) as u64 } else { (x + 1) as u64 })
    ensures y == add(x, 1u64), (y & m) == (m & add(x, 1u64))
{
    if x == u64::MAX { assert(add(x, 1u64) == 0) by(bit_vector) requires x == 0xffff_ffff_ffff_ffffu64; } else { assert(add(x, 1u64) == x + 1); }
    assert(y & m == m & y) by(bit_vector);
}

proof fn lemma_bit_update(x: u64, k: u64, j: u64)
    requires k < 64, j < 64
    ensures
        ((x & (1u64 << k)) != 0) == (((x >> k) & 1) == 1),
        (((x | (1u64 << k)) >> j) & 1) == (if j == k { 1u64 } else { (x >> j) & 1 }),
        (((x & !(1u64 << k)) >> j) & 1) == (if j == k { 0u64 } else { (x >> j) & 1 }),
{
    assert(k < 64 && j < 64 ==> (((x & (1u64 << k)) != 0) == (((x >> k) & 1) == 1))
        && ((((x | (1u64 << k)) >> j) & 1) == (if j == k { 1u64 } else { (x >> j) & 1 }))
        && ((((x & !(1u64 << k)) >> j) & 1) == (if j == k { 0u64 } else { (x >> j) & 1 }))) by (bit_vector);
}
proof fn lemma_split_index(a: usize, b: usize)
    ensures (a == b) == ((a >> 6) == (b >> 6) && (a & 63) == (b & 63)), (a & 63) == (a & 0x3f),
{
    assert((a == b) == ((a >> 6) == (b >> 6) && (a & 63) == (b & 63))) by (bit_vector);
}
pub proof fn lemma_setbit_bits(n: usize, o: Seq<u64>, f: Seq<u64>, ind: usize, m: usize)
    requires n < 64, o.len() == tsize(n), ind < (1usize << n), m < (1usize << n),
    ensures
        f =~= o.update((ind >> 6) as int, o[(ind >> 6) as int] | (1u64 << ((ind & 0x3f) as u64))) ==> bitu(f, m) == (m == ind || bitu(o, m)),
        f =~= o.update((ind >> 6) as int, o[(ind >> 6) as int] & !(1u64 << ((ind & 0x3f) as u64))) ==> bitu(f, m) == (m != ind && bitu(o, m)),
        bitu(o, ind) == ((o[(ind >> 6) as int] & (1u64 << ((ind & 0x3f) as u64))) != 0),
{
    lemma_bit_index(n, ind); lemma_bit_index(n, m); lemma_split_index(ind, m); lemma_split_index(m, ind);
    let k = (ind & 0x3f) as u64; let j = (m & 63) as u64;
    lemma_bit_update(o[(ind >> 6) as int], k, j);
    lemma_bit_update(o[(ind >> 6) as int], k, k);
    assert((ind & 63) == (ind & 0x3f)) by (bit_vector);
}
