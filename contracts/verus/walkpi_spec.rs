// ---------------------------------------------------------------------------------------------
// C04 / C05 composition: every table of a walk is the input read through a composed index map pi(k, .) with a
// composed output polarity out(k); pi/out are functions of the sequences only (lemma_*_walk_pi, induction over
// the bit-level contracts of the three generators).  With the ground facts about the concrete sequences
// (closed walk) this gives walk(L) == t0, which the dispatchers need for the certificate of an
// already-canonical input.

// ---- wf and length are preserved along the generators
pub proof fn lemma_swapadj_post(n: usize, o: Seq<u64>, i: usize)
    requires n < 64, i + 1 < n, o.len() == tsize(n)
    ensures swap_post(n, o, swapadj_spec(n, o, i), i, (i + 1) as usize), swapadj_spec(n, o, i).len() == o.len(),
        wf(n, o) ==> wf(n, swapadj_spec(n, o, i)),
{
    let f = swapadj_spec(n, o, i);
    assert forall|w: int| 0 <= w < o.len() implies #[trigger] f[w] == swapadj_spec(n, o, i)[w] by {}
    if n < 6 && wf(n, o) {
        lemma_tsize_pos(n);
        lemma_swapw_wf(o[0], n, (i + 1) as usize, i);
    }
}
pub proof fn lemma_flip_spec_wf(n: usize, o: Seq<u64>, i: usize)
    requires n < 64, i < n, o.len() == tsize(n)
    ensures flip_spec(n, o, i).len() == o.len(), wf(n, o) ==> wf(n, flip_spec(n, o, i)),
{
    if n < 6 && wf(n, o) {
        lemma_tsize_pos(n);
        lemma_word_wf(o[0], o[0], n, i);
    }
}
pub proof fn lemma_not_spec_wf(n: usize, o: Seq<u64>)
    requires n < 64, o.len() == tsize(n)
    ensures not_spec(n, o).len() == o.len(), wf(n, not_spec(n, o)),
{
    lemma_tsize_pos(n);
    lemma_mask_wf(!o[0], n);
}

// ---- P walk
pub open spec fn p_pi(swaps: Seq<u8>, k: int, m: usize) -> usize
    decreases k
{
    if k <= 0 { m } else { p_pi(swaps, k - 1, swapbitsu(m, swaps[k - 1] as usize, (swaps[k - 1] + 1) as usize)) }
}
pub proof fn lemma_p_walk_wf(n: usize, t0: Seq<u64>, swaps: Seq<u8>, k: int)
    requires n < 64, t0.len() == tsize(n), seq_ok(n, swaps, Seq::empty()), 0 <= k <= swaps.len()
    ensures p_walk(n, t0, swaps, k).len() == tsize(n), wf(n, t0) ==> wf(n, p_walk(n, t0, swaps, k))
    decreases k
{
    if k > 0 {
        lemma_p_walk_wf(n, t0, swaps, k - 1);
        lemma_swapadj_post(n, p_walk(n, t0, swaps, k - 1), swaps[k - 1] as usize);
    }
}
pub proof fn lemma_p_walk_pi(n: usize, t0: Seq<u64>, swaps: Seq<u8>, k: int, m: usize)
    requires n < 64, t0.len() == tsize(n), seq_ok(n, swaps, Seq::empty()), 0 <= k <= swaps.len(), m < (1usize << n)
    ensures bitu(p_walk(n, t0, swaps, k), m) == bitu(t0, p_pi(swaps, k, m)), p_pi(swaps, k, m) < (1usize << n)
    decreases k
{
    if k > 0 {
        let s = swaps[k - 1] as usize;
        let prev = p_walk(n, t0, swaps, k - 1);
        lemma_p_walk_wf(n, t0, swaps, k - 1);
        lemma_swapadj_post(n, prev, s);
        lemma_swap_bits(n, prev, swapadj_spec(n, prev, s), s, (s + 1) as usize, m);
        lemma_p_walk_pi(n, t0, swaps, k - 1, swapbitsu(m, s, (s + 1) as usize));
    }
}

// ---- N walk
pub open spec fn n_pi(flips: Seq<u8>, s: int, m: usize) -> usize
    decreases s
{
    if s <= 0 { m }
    else {
        let q = s - 1;
        let m1 = if q % 2 == 0 { (m ^ (1usize << (flips[q / 2] as usize))) as usize } else { m };
        n_pi(flips, s - 1, m1)
    }
}
pub open spec fn out_par(s: int) -> bool { s > 0 && s % 2 == 1 }
pub proof fn lemma_n_walk_wf(n: usize, t0: Seq<u64>, flips: Seq<u8>, s: int)
    requires n < 64, t0.len() == tsize(n), seq_ok(n, Seq::empty(), flips), 0 <= s <= 2 * flips.len()
    ensures n_walk(n, t0, flips, s).len() == tsize(n), wf(n, t0) ==> wf(n, n_walk(n, t0, flips, s))
    decreases s
{
    if s > 0 {
        let q = s - 1;
        lemma_n_walk_wf(n, t0, flips, s - 1);
        let prev = n_walk(n, t0, flips, s - 1);
        if q % 2 == 0 {
            lemma_flip_spec_wf(n, prev, flips[q / 2] as usize);
            lemma_not_spec_wf(n, flip_spec(n, prev, flips[q / 2] as usize));
        } else {
            lemma_not_spec_wf(n, prev);
        }
    }
}
pub proof fn lemma_n_walk_pi(n: usize, t0: Seq<u64>, flips: Seq<u8>, s: int, m: usize)
    requires n < 64, wf(n, t0), seq_ok(n, Seq::empty(), flips), 0 <= s <= 2 * flips.len(), m < (1usize << n)
    ensures bitu(n_walk(n, t0, flips, s), m) == (bitu(t0, n_pi(flips, s, m)) != out_par(s)), n_pi(flips, s, m) < (1usize << n)
    decreases s
{
    if s > 0 {
        let q = s - 1;
        let prev = n_walk(n, t0, flips, s - 1);
        lemma_n_walk_wf(n, t0, flips, s - 1);
        if q % 2 == 0 {
            let f = flips[q / 2] as usize;
            let p2 = flip_spec(n, prev, f);
            lemma_flip_spec_wf(n, prev, f);
            lemma_not_bits(n, p2, not_spec(n, p2), m);
            lemma_flip_bits(n, prev, p2, f, m);
            lemma_n_walk_pi(n, t0, flips, s - 1, (m ^ (1usize << f)) as usize);
        } else {
            lemma_not_bits(n, prev, not_spec(n, prev), m);
            lemma_n_walk_pi(n, t0, flips, s - 1, m);
        }
    }
}

// ---- NPN walk
pub open spec fn npn_pi(swaps: Seq<u8>, flips: Seq<u8>, s: int, m: usize) -> usize
    decreases s
{
    let f = flips.len() as int;
    if s <= 0 || f == 0 { m }
    else {
        let q = s - 1;
        let c = q % 2;
        let b = (q / 2) % f;
        let a = (q / 2) / f;
        let m1 = if c == 0 { (m ^ (1usize << (flips[b] as usize))) as usize } else { m };
        let m2 = if c == 0 && b == 0 { swapbitsu(m1, swaps[a] as usize, (swaps[a] + 1) as usize) } else { m1 };
        npn_pi(swaps, flips, s - 1, m2)
    }
}
pub proof fn lemma_npn_index(S: int, F: int, q: int)
    requires S >= 0, F > 0, 0 <= q < 2 * S * F
    ensures 0 <= (q / 2) % F < F, 0 <= (q / 2) / F < S
{
    let h = q / 2;
    assert(h < S * F) by (nonlinear_arith) requires 0 <= q < 2 * S * F, h == q / 2;
    vstd::arithmetic::div_mod::lemma_fundamental_div_mod(h, F);
    vstd::arithmetic::div_mod::lemma_mod_bound(h, F);
    let a = h / F; let b = h % F;
    assert(a < S) by (nonlinear_arith) requires h == F * a + b, 0 <= b < F, h < S * F, F > 0;
    assert(a >= 0) by (nonlinear_arith) requires h == F * a + b, 0 <= b < F, h >= 0, F > 0;
}
pub proof fn lemma_npn_walk_wf(n: usize, t0: Seq<u64>, swaps: Seq<u8>, flips: Seq<u8>, s: int)
    requires n < 64, t0.len() == tsize(n), seq_ok(n, swaps, flips), flips.len() > 0, 0 <= s <= 2 * swaps.len() * flips.len()
    ensures npn_walk(n, t0, swaps, flips, s).len() == tsize(n), wf(n, t0) ==> wf(n, npn_walk(n, t0, swaps, flips, s))
    decreases s
{
    if s > 0 {
        let F = flips.len() as int; let q = s - 1;
        lemma_npn_index(swaps.len() as int, F, q);
        lemma_npn_walk_wf(n, t0, swaps, flips, s - 1);
        let prev = npn_walk(n, t0, swaps, flips, s - 1);
        let c = q % 2; let b = (q / 2) % F; let a = (q / 2) / F;
        let p1 = if c == 0 && b == 0 { swapadj_spec(n, prev, swaps[a] as usize) } else { prev };
        if c == 0 && b == 0 { lemma_swapadj_post(n, prev, swaps[a] as usize); }
        let p2 = if c == 0 { flip_spec(n, p1, flips[b] as usize) } else { p1 };
        if c == 0 { lemma_flip_spec_wf(n, p1, flips[b] as usize); }
        lemma_not_spec_wf(n, p2);
    }
}
pub proof fn lemma_npn_walk_pi(n: usize, t0: Seq<u64>, swaps: Seq<u8>, flips: Seq<u8>, s: int, m: usize)
    requires n < 64, wf(n, t0), seq_ok(n, swaps, flips), flips.len() > 0, 0 <= s <= 2 * swaps.len() * flips.len(), m < (1usize << n)
    ensures bitu(npn_walk(n, t0, swaps, flips, s), m) == (bitu(t0, npn_pi(swaps, flips, s, m)) != out_par(s)),
        npn_pi(swaps, flips, s, m) < (1usize << n)
    decreases s
{
    if s > 0 {
        let F = flips.len() as int; let q = s - 1;
        lemma_npn_index(swaps.len() as int, F, q);
        lemma_npn_walk_wf(n, t0, swaps, flips, s - 1);
        let prev = npn_walk(n, t0, swaps, flips, s - 1);
        let c = q % 2; let b = (q / 2) % F; let a = (q / 2) / F;
        let sa = swaps[a] as usize; let fb = flips[b] as usize;
        let p1 = if c == 0 && b == 0 { swapadj_spec(n, prev, sa) } else { prev };
        if c == 0 && b == 0 { lemma_swapadj_post(n, prev, sa); }
        let p2 = if c == 0 { flip_spec(n, p1, fb) } else { p1 };
        if c == 0 { lemma_flip_spec_wf(n, p1, fb); }
        lemma_not_bits(n, p2, not_spec(n, p2), m);
        let m1 = if c == 0 { (m ^ (1usize << fb)) as usize } else { m };
        if c == 0 { lemma_flip_bits(n, p1, p2, fb, m); }
        let m2 = if c == 0 && b == 0 { swapbitsu(m1, sa, (sa + 1) as usize) } else { m1 };
        if c == 0 && b == 0 { lemma_swap_bits(n, prev, p1, sa, (sa + 1) as usize, m1); }
        lemma_npn_walk_pi(n, t0, swaps, flips, s - 1, m2);
    }
}

// ---- closure: a walk whose composed map is the identity (ground fact about the sequences) ends on its input
pub proof fn lemma_p_closed(n: usize, t0: Seq<u64>, swaps: Seq<u8>)
    requires n < 64, wf(n, t0), seq_ok(n, swaps, Seq::empty()),
        forall|m: usize| m < (1usize << n) ==> #[trigger] p_pi(swaps, swaps.len() as int, m) == m,
    ensures p_walk(n, t0, swaps, swaps.len() as int) =~= t0
{
    let L = swaps.len() as int;
    lemma_p_walk_wf(n, t0, swaps, L);
    assert forall|m: usize| m < (1usize << n) implies #[trigger] bitu(p_walk(n, t0, swaps, L), m) == bitu(t0, m) by {
        lemma_p_walk_pi(n, t0, swaps, L, m);
        assert(p_pi(swaps, L, m) == m);
    }
    lemma_ext(n, p_walk(n, t0, swaps, L), t0);
}
pub proof fn lemma_n_closed(n: usize, t0: Seq<u64>, flips: Seq<u8>)
    requires n < 64, wf(n, t0), seq_ok(n, Seq::empty(), flips),
        forall|m: usize| m < (1usize << n) ==> #[trigger] n_pi(flips, (2 * flips.len()) as int, m) == m,
    ensures n_walk(n, t0, flips, (2 * flips.len()) as int) =~= t0
{
    let L = (2 * flips.len()) as int;
    lemma_n_walk_wf(n, t0, flips, L);
    assert forall|m: usize| m < (1usize << n) implies #[trigger] bitu(n_walk(n, t0, flips, L), m) == bitu(t0, m) by {
        lemma_n_walk_pi(n, t0, flips, L, m);
        assert(n_pi(flips, L, m) == m);
    }
    lemma_ext(n, n_walk(n, t0, flips, L), t0);
}
pub proof fn lemma_npn_closed(n: usize, t0: Seq<u64>, swaps: Seq<u8>, flips: Seq<u8>)
    requires n < 64, wf(n, t0), seq_ok(n, swaps, flips), flips.len() > 0,
        forall|m: usize| m < (1usize << n) ==> #[trigger] npn_pi(swaps, flips, (2 * swaps.len() * flips.len()) as int, m) == m,
    ensures npn_walk(n, t0, swaps, flips, (2 * swaps.len() * flips.len()) as int) =~= t0
{
    let L = (2 * swaps.len() * flips.len()) as int;
    assert(L >= 0) by (nonlinear_arith) requires L == 2 * swaps.len() * flips.len();
    let h = (swaps.len() * flips.len()) as int;
    assert(L == 2 * h) by (nonlinear_arith) requires L == 2 * swaps.len() * flips.len(), h == swaps.len() * flips.len();
    assert(L % 2 == 0);
    lemma_npn_walk_wf(n, t0, swaps, flips, L);
    assert forall|m: usize| m < (1usize << n) implies #[trigger] bitu(npn_walk(n, t0, swaps, flips, L), m) == bitu(t0, m) by {
        lemma_npn_walk_pi(n, t0, swaps, flips, L, m);
        assert(npn_pi(swaps, flips, L, m) == m);
    }
    lemma_ext(n, npn_walk(n, t0, swaps, flips, L), t0);
}
