// ---------------------------------------------------------------------------------------------
// Theory shared by C02 / C03 / C08: extensionality of well-formed tables, the numeric order, Shannon round trip.
// Pure lemmas over the vocabulary of kernels_spec.rs (no executable code).

/// bit k of every word decides the word
proof fn lemma_word_ext(a: u64, b: u64)
    requires forall|k: u64| k < 64 ==> ((a >> k) & 1) == ((b >> k) & 1)
    ensures a == b
{
    if a != b {
        assert(a != b ==> exists|k: u64| k < 64 && ((a >> k) & 1) != ((b >> k) & 1)) by (bit_vector);
    }
}

/// position of an assignment in the table: assignment (w << 6) | k lives in word w at bit k
proof fn lemma_compose_index(n: usize, w: usize, k: usize)
    requires 6 <= n < 64, w < tsize(n), k < 64
    ensures ((w << 6) | k) < (1usize << n), (((w << 6) | k) >> 6) == w, (((w << 6) | k) & 63) == k
{
    let e = (n - 6) as usize;
    assert(6 <= n && n < 64 && e == n - 6 && w < (if n <= 6 { 1usize } else { 1usize << e }) && k < 64 ==>
        ((w << 6) | k) < (1usize << n) && (((w << 6) | k) >> 6) == w && (((w << 6) | k) & 63) == k) by (bit_vector);
}

/// C02, consequence lemma: two well-formed tables of the same number of variables that agree on every
/// assignment are the same sequence of words (so derived ==, Hash and the word-wise cmp see one representation).
pub proof fn lemma_ext(n: usize, a: Seq<u64>, b: Seq<u64>)
    requires n < 64, wf(n, a), wf(n, b),
        forall|m: usize| m < (1usize << n) ==> #[trigger] bitu(a, m) == bitu(b, m),
    ensures a =~= b
{
    assert forall|w: int| 0 <= w < a.len() implies a[w] == b[w] by {
        let x = a[w]; let y = b[w];
        assert forall|k: u64| k < 64 implies ((x >> k) & 1) == ((y >> k) & 1) by {
            if n >= 6 {
                let wu = w as usize; let ku = k as usize;
                lemma_compose_index(n, wu, ku);
                let m = ((wu << 6) | ku) as usize;
                assert(bitu(a, m) == bitu(b, m));
                assert((m >> 6) as int == w && ((m & 63) as u64) == k);
                let xk = (x >> k) & 1; let yk = (y >> k) & 1;
                assert(xk == 0 || xk == 1) by (bit_vector) requires xk == (x >> k) & 1;
                assert(yk == 0 || yk == 1) by (bit_vector) requires yk == (y >> k) & 1;
            } else {
                lemma_tsize_pos(n);
                assert(w == 0);
                let mk = nmask(n);
                if (k as usize) < (1usize << n) {
                    let m = k as usize;
                    assert(n < 6 && m < (1usize << n) ==> (m >> 6) == 0 && (m & 63) == m) by (bit_vector);
                    assert(bitu(a, m) == bitu(b, m));
                    let xk = (x >> k) & 1; let yk = (y >> k) & 1;
                    assert(xk == 0 || xk == 1) by (bit_vector) requires xk == (x >> k) & 1;
                    assert(yk == 0 || yk == 1) by (bit_vector) requires yk == (y >> k) & 1;
                } else {
                    let ku = k as usize;
                    assert(n < 6 && k < 64 && ku == k as usize && !(ku < (1usize << n)) ==> (k as u64) >= (1u64 << (n as u64))) by (bit_vector);
                    assert(((n == 0 && mk == 0x1u64) || (n == 1 && mk == 0x3u64) || (n == 2 && mk == 0xfu64)
                         || (n == 3 && mk == 0xffu64) || (n == 4 && mk == 0xffffu64) || (n == 5 && mk == 0xffff_ffffu64))
                        && k < 64 && k >= (1u64 << (n as u64)) && (x & !mk) == 0 ==> ((x >> k) & 1) == 0) by (bit_vector);
                    assert(((n == 0 && mk == 0x1u64) || (n == 1 && mk == 0x3u64) || (n == 2 && mk == 0xfu64)
                         || (n == 3 && mk == 0xffu64) || (n == 4 && mk == 0xffffu64) || (n == 5 && mk == 0xffff_ffffu64))
                        && k < 64 && k >= (1u64 << (n as u64)) && (y & !mk) == 0 ==> ((y >> k) & 1) == 0) by (bit_vector);
                }
            }
        }
        lemma_word_ext(x, y);
    }
}

/// converse: equal representations are equal functions (trivial, stated for completeness of the iff)
pub proof fn lemma_ext_conv(n: usize, a: Seq<u64>, b: Seq<u64>, m: usize)
    requires a == b
    ensures bitu(a, m) == bitu(b, m)
{}

// ---- the numeric order on tables of equal length: most significant word = last index (C08)
pub open spec fn lex_lt(a: Seq<u64>, b: Seq<u64>) -> bool
    decreases a.len()
{
    if a.len() == 0 || a.len() != b.len() { false }
    else if a.last() != b.last() { a.last() < b.last() }
    else { lex_lt(a.drop_last(), b.drop_last()) }
}
pub proof fn lemma_lex_irrefl(a: Seq<u64>)
    ensures !lex_lt(a, a)
    decreases a.len()
{
    if a.len() > 0 { lemma_lex_irrefl(a.drop_last()); }
}
pub proof fn lemma_lex_trans(a: Seq<u64>, b: Seq<u64>, c: Seq<u64>)
    requires lex_lt(a, b), lex_lt(b, c)
    ensures lex_lt(a, c)
    decreases a.len()
{
    if a.len() > 0 && a.last() == b.last() && b.last() == c.last() {
        lemma_lex_trans(a.drop_last(), b.drop_last(), c.drop_last());
    }
}
pub proof fn lemma_lex_total(a: Seq<u64>, b: Seq<u64>)
    requires a.len() == b.len()
    ensures a == b || lex_lt(a, b) || lex_lt(b, a)
    decreases a.len()
{
    if a.len() == 0 {
        assert(a =~= b);
    } else if a.last() == b.last() {
        lemma_lex_total(a.drop_last(), b.drop_last());
        if a.drop_last() == b.drop_last() {
            assert(a =~= a.drop_last().push(a.last()));
            assert(b =~= b.drop_last().push(b.last()));
        }
    }
}
pub proof fn lemma_lex_asym(a: Seq<u64>, b: Seq<u64>)
    requires lex_lt(a, b)
    ensures !lex_lt(b, a), a != b
{
    if lex_lt(b, a) { lemma_lex_trans(a, b, a); }
    lemma_lex_irrefl(a);
}
/// a lower word decides only when all higher words agree: lex_lt is the order of the tables as big numbers
pub proof fn lemma_lex_top_word(a: Seq<u64>, b: Seq<u64>)
    requires a.len() == b.len(), a.len() > 0, a.last() < b.last()
    ensures lex_lt(a, b)
{}

// ---- Shannon round trip (C03): from the three kernel postconditions alone
pub proof fn lemma_shannon(n: usize, f: Seq<u64>, c0: Seq<u64>, c1: Seq<u64>, r: Seq<u64>, ind: usize)
    requires n < 64, ind < n, wf(n, f), wf(n, r),
        forall|m: usize| m < (1usize << n) ==> #[trigger] bitu(c0, m) == bitu(f, (m & !(1usize << ind)) as usize),
        forall|m: usize| m < (1usize << n) ==> #[trigger] bitu(c1, m) == bitu(f, (m | (1usize << ind)) as usize),
        forall|m: usize| m < (1usize << n) ==> #[trigger] bitu(r, m) == (if ((m >> ind) & 1) == 1 { bitu(c1, m) } else { bitu(c0, m) }),
    ensures r =~= f
{
    assert forall|m: usize| m < (1usize << n) implies #[trigger] bitu(r, m) == bitu(f, m) by {
        let b = 1usize << ind;
        assert(ind < 64 && b == 1usize << ind ==> (if ((m >> ind) & 1) == 1 { (m | b) == m } else { (m & !b) == m })) by (bit_vector);
        if ((m >> ind) & 1) == 1 { assert(bitu(c1, m) == bitu(f, (m | b) as usize)); } else { assert(bitu(c0, m) == bitu(f, (m & !b) as usize)); }
    }
    lemma_ext(n, r, f);
}
/// each cofactor is independent of the variable it was taken for
pub proof fn lemma_cofactor_independent(n: usize, f: Seq<u64>, c0: Seq<u64>, ind: usize, m: usize)
    requires n < 64, ind < n, m < (1usize << n),
        forall|q: usize| q < (1usize << n) ==> #[trigger] bitu(c0, q) == bitu(f, (q & !(1usize << ind)) as usize),
    ensures ((m ^ (1usize << ind)) as usize) < (1usize << n), bitu(c0, m) == bitu(c0, (m ^ (1usize << ind)) as usize)
{
    let b = 1usize << ind;
    assert(n < 64 && ind < n && m < (1usize << n) && b == 1usize << ind ==> (m ^ b) < (1usize << n) && ((m ^ b) & !b) == (m & !b)) by (bit_vector);
    let m2 = (m ^ b) as usize;
    assert(bitu(c0, m2) == bitu(f, (m2 & !b) as usize));
}
