// ---------------------------------------------------------------------------------------------
// Ground facts about the concrete sequences used for n variables (n <= 8): FLIPS[n] / SWAPS[n] for n <= 6,
// generate_gray_flips(n, true) / generate_swaps(n, true) for n = 7, 8.  Each `ground_*` lemma is an external_body
// statement that the ground evaluator (contracts/ground/g04_canon.rs) decides on the constants of the current tree
// by exhaustive evaluation; the unit counts as discharged only when those ground obligations pass.
pub uninterp spec fn flips_spec(n: usize) -> Seq<u8>;
pub uninterp spec fn swaps_spec(n: usize) -> Seq<u8>;

pub open spec fn swaps_len(n: usize) -> nat {
    if n <= 1 { 0 } else if n == 2 { 2 } else if n == 3 { 6 } else if n == 4 { 24 } else if n == 5 { 120 } else if n == 6 { 720 } else if n == 7 { 5040 } else { 40320 }
}
pub open spec fn flips_len(n: usize) -> nat {
    if n == 0 { 0 } else if n == 1 { 2 } else if n == 2 { 4 } else if n == 3 { 8 } else if n == 4 { 16 } else if n == 5 { 32 } else if n == 6 { 64 } else if n == 7 { 128 } else { 256 }
}

/// G:g04_seq_facts - entries in range, lengths n! (0 for n <= 1) and 2^n (0 for n = 0)
#[verifier::external_body]
pub proof fn ground_seq_facts(n: usize)
    requires n <= 8
    ensures seq_ok(n, swaps_spec(n), flips_spec(n)), swaps_spec(n).len() == swaps_len(n), flips_spec(n).len() == flips_len(n),
{}
/// G:g04_p_closed - the composed index map of the whole swap walk is the identity
#[verifier::external_body]
pub proof fn ground_p_closed(n: usize)
    requires n <= 8
    ensures forall|m: usize| m < (1usize << n) ==> #[trigger] p_pi(swaps_spec(n), swaps_spec(n).len() as int, m) == m,
{}
/// G:g04_n_closed - the composed index map of the whole flip walk is the identity (output polarity: even step count)
#[verifier::external_body]
pub proof fn ground_n_closed(n: usize)
    requires n <= 8
    ensures forall|m: usize| m < (1usize << n) ==> #[trigger] n_pi(flips_spec(n), (2 * flips_spec(n).len()) as int, m) == m,
{}
/// G:g04_npn_closed - the composed index map of the whole NPN walk is the identity
#[verifier::external_body]
pub proof fn ground_npn_closed(n: usize)
    requires n <= 8
    ensures forall|m: usize| m < (1usize << n) ==>
        #[trigger] npn_pi(swaps_spec(n), flips_spec(n), (2 * swaps_spec(n).len() * flips_spec(n).len()) as int, m) == m,
{}

// ---- postconditions of the dispatchers, as predicates (shared between n_canonization and npn_canonization for n <= 1)
pub open spec fn n_canon_post(n: usize, t0: Seq<u64>, fbest: Seq<u64>, r: u32) -> bool {
    let fl = flips_spec(n);
    &&& fbest.len() == t0.len()
    &&& n == 0 ==> fbest =~= seq![0u64] && r == (t0[0] & 1) as u32
    &&& n > 0 ==> (forall|j: int| 0 <= j <= 2 * fl.len() ==> !lex_lt(#[trigger] n_walk(n, t0, fl, j), fbest))
    &&& n > 0 ==> exists|s: int| 1 <= s <= 2 * fl.len() && fbest == #[trigger] n_walk(n, t0, fl, s) && r == n_mask(n, fl, s)
}
pub open spec fn npn_canon_post(n: usize, t0: Seq<u64>, fbest: Seq<u64>, fperm: Seq<u8>, r: u32) -> bool {
    let fl = flips_spec(n); let sw = swaps_spec(n);
    &&& fbest.len() == t0.len() && fperm.len() == n
    &&& (forall|j: int| 0 <= j <= 2 * sw.len() * fl.len() ==> !lex_lt(#[trigger] npn_walk(n, t0, sw, fl, j), fbest))
    &&& exists|s: int| 1 <= s <= 2 * sw.len() * fl.len() && fbest == #[trigger] npn_walk(n, t0, sw, fl, s) && r == npn_mask(n, fl, s)
            && fperm =~= perm_at(n as int, sw, ((s - 1) / 2) / (fl.len() as int) + 1)
}
