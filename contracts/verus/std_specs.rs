// Contracts assumed for std items (DESIGN 7); each is a one-line statement of documented std behaviour.
#[verifier::external_type_specification]
pub struct ExAssertKind(core::panicking::AssertKind);

pub assume_specification<T, U> [core::panicking::assert_failed] (_0: core::panicking::AssertKind, _1: &T, _2: &U, _3: std::option::Option<std::fmt::Arguments<'_>>) -> !
          where
          T: std::marker::MetaSized + std::fmt::Debug + ?Sized,
          U: std::marker::MetaSized + std::fmt::Debug + ?Sized,
   requires false;

pub assume_specification<'a, T> [<&'a mut [T] as core::iter::IntoIterator>::into_iter] (s: &'a mut [T]) -> (r: core::slice::IterMut<'a, T>)
  ensures
    r.obeys_prophetic_iter_laws(), r.decrease() is Some, r.will_return_none(),
    r.remaining().len() == old(s)@.len(),
    final(s)@.len() == old(s)@.len(),
    forall|i: int| 0 <= i < old(s)@.len() ==> *(#[trigger] r.remaining()[i]) == old(s)@[i],
    forall|i: int| #![trigger r.remaining()[i]] #![trigger final(s)@[i]] 0 <= i < old(s)@.len() ==> *final(r.remaining()[i]) == final(s)@[i],
;

pub assume_specification<T> [<[T]>::swap] (s: &mut [T], a: usize, b: usize)
    requires a < old(s)@.len(), b < old(s)@.len(),
    ensures final(s)@ == old(s)@.update(a as int, old(s)@[b as int]).update(b as int, old(s)@[a as int]);

pub assume_specification<T: core::cmp::Ord> [core::cmp::min] (a: T, b: T) -> (r: T)
    ensures T::obeys_cmp_spec() ==> r == (if a.cmp_spec(&b) == core::cmp::Ordering::Greater { b } else { a });
pub assume_specification<T: core::cmp::Ord> [core::cmp::max] (a: T, b: T) -> (r: T)
    ensures T::obeys_cmp_spec() ==> r == (if a.cmp_spec(&b) == core::cmp::Ordering::Greater { a } else { b });
