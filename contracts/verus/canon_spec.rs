// ---------------------------------------------------------------------------------------------
// Canonization (C04 / C05): std contracts, the group actions as functions on tables, the walks, the decoders.
pub assume_specification<T: Clone> [<[T]>::clone_from_slice] (dst: &mut [T], src: &[T])
    requires old(dst)@.len() == src@.len(),
    ensures final(dst)@ == src@;
pub assume_specification [core::cmp::Ordering::is_lt] (o: core::cmp::Ordering) -> (r: bool)
    ensures r == (o == core::cmp::Ordering::Less);

// ---- the three generators as functions on tables (word level, read off the kernel CONTRACTS of the kernels unit)
pub open spec fn not_spec(n: usize, t: Seq<u64>) -> Seq<u64> {
    Seq::new(t.len(), |w: int| nmask(n) & !t[w])
}
pub open spec fn flip_spec(n: usize, t: Seq<u64>, i: usize) -> Seq<u64> {
    Seq::new(t.len(), |w: int| if i <= 5 { flipw(t[w], i) } else { t[((w as usize) ^ (1usize << ((i - 6) as usize))) as int] })
}
pub open spec fn swapadj_spec(n: usize, t: Seq<u64>, i: usize) -> Seq<u64> {
    Seq::new(t.len(), |w: int| {
        let wu = w as usize;
        if i + 1 <= 5 { swapw(t[w], (i + 1) as usize, i) }
        else if i <= 5 {
            let mi = 1usize << ((i + 1 - 6) as usize);
            if (wu & mi) == 0 { cross_lo(t[(wu & !mi) as int], t[(wu | mi) as int], i) } else { cross_hi(t[(wu & !mi) as int], t[(wu | mi) as int], i) }
        } else {
            let a = 1usize << ((i - 6) as usize); let b = 1usize << ((i + 1 - 6) as usize);
            if is_mixed(wu, a, b) { t[(wu ^ a ^ b) as int] } else { t[w] }
        }
    })
}
pub proof fn lemma_swapadj_link(n: usize, o: Seq<u64>, f: Seq<u64>, i: usize)
    requires i + 1 < n, n < 64, swap_post(n, o, f, i, (i + 1) as usize)
    ensures f =~= swapadj_spec(n, o, i)
{
    assert(f.len() == o.len());
    assert forall|w: int| 0 <= w < o.len() implies f[w] == swapadj_spec(n, o, i)[w] by {
        assert(f[w] == f[w]);
    }
}
pub proof fn lemma_flip_link(n: usize, o: Seq<u64>, f: Seq<u64>, i: usize)
    requires f.len() == o.len(),
       i <= 5 ==> forall|w: int| 0 <= w < o.len() ==> #[trigger] f[w] == flipw(o[w], i),
       i >= 6 ==> forall|w: int| 0 <= w < o.len() ==> #[trigger] f[w] == o[((w as usize) ^ (1usize << ((i - 6) as usize))) as int],
    ensures f =~= flip_spec(n, o, i)
{
    assert forall|w: int| 0 <= w < o.len() implies f[w] == flip_spec(n, o, i)[w] by { assert(f[w] == f[w]); }
}
pub proof fn lemma_not_link(n: usize, o: Seq<u64>, f: Seq<u64>)
    requires f.len() == o.len(), forall|w: int| 0 <= w < o.len() ==> #[trigger] f[w] == nmask(n) & !o[w],
    ensures f =~= not_spec(n, o)
{
    assert forall|w: int| 0 <= w < o.len() implies f[w] == not_spec(n, o)[w] by { assert(f[w] == f[w]); }
}

// ---- the walks (spec functions of the sequences only; written from the group actions, not read off the loops)
/// P walk: state after the first k adjacent swaps
pub open spec fn p_walk(n: usize, t0: Seq<u64>, swaps: Seq<u8>, k: int) -> Seq<u64>
    decreases k
{
    if k <= 0 { t0 } else { swapadj_spec(n, p_walk(n, t0, swaps, k - 1), swaps[k - 1] as usize) }
}
/// N walk: comparison point q = 2*b + c (flip b, complement c); state after the first s comparison points
pub open spec fn n_walk(n: usize, t0: Seq<u64>, flips: Seq<u8>, s: int) -> Seq<u64>
    decreases s
{
    if s <= 0 { t0 }
    else {
        let prev = n_walk(n, t0, flips, s - 1);
        let q = s - 1;
        let p2 = if q % 2 == 0 { flip_spec(n, prev, flips[q / 2] as usize) } else { prev };
        not_spec(n, p2)
    }
}
/// NPN walk: comparison point q = (a*F + b)*2 + c (swap a, flip b, complement c)
pub open spec fn npn_walk(n: usize, t0: Seq<u64>, swaps: Seq<u8>, flips: Seq<u8>, s: int) -> Seq<u64>
    decreases s
{
    let f = flips.len() as int;
    if s <= 0 || f == 0 { t0 }
    else {
        let prev = npn_walk(n, t0, swaps, flips, s - 1);
        let q = s - 1;
        let c = q % 2;
        let b = (q / 2) % f;
        let a = (q / 2) / f;
        let p1 = if c == 0 && b == 0 { swapadj_spec(n, prev, swaps[a] as usize) } else { prev };
        let p2 = if c == 0 { flip_spec(n, p1, flips[b] as usize) } else { p1 };
        not_spec(n, p2)
    }
}

pub open spec fn seq_ok(n: usize, swaps: Seq<u8>, flips: Seq<u8>) -> bool {
    &&& forall|j: int| 0 <= j < swaps.len() ==> #[trigger] swaps[j] + 1 < n
    &&& forall|j: int| 0 <= j < flips.len() ==> #[trigger] flips[j] < n
}

// ---- decoders (C05): the certificate as a function of the sequences and the step index
pub open spec fn ident(n: int) -> Seq<u8> { Seq::new(n as nat, |i: int| i as u8) }
pub open spec fn swap2(p: Seq<u8>, a: int) -> Seq<u8> { p.update(a, p[a + 1]).update(a + 1, p[a]) }
/// permutation after applying the first k adjacent transpositions of the sequence to the identity
pub open spec fn perm_at(n: int, swaps: Seq<u8>, k: int) -> Seq<u8>
    decreases k
{
    if k <= 0 { ident(n) } else { swap2(perm_at(n, swaps, k - 1), swaps[k - 1] as int) }
}
/// complementation mask after the first s comparison points of the N walk
pub open spec fn n_mask(n: usize, flips: Seq<u8>, s: int) -> u32
    decreases s
{
    if s <= 0 { 0u32 }
    else {
        let prev = n_mask(n, flips, s - 1);
        let q = s - 1;
        let p1 = if q % 2 == 0 { prev ^ (1u32 << (flips[q / 2] as u32)) } else { prev };
        p1 ^ (1u32 << (n as u32))
    }
}
/// complementation mask after the first s comparison points of the NPN walk
pub open spec fn npn_mask(n: usize, flips: Seq<u8>, s: int) -> u32
    decreases s
{
    let f = flips.len() as int;
    if s <= 0 || f == 0 { 0u32 }
    else {
        let prev = npn_mask(n, flips, s - 1);
        let q = s - 1;
        let b = (q / 2) % f;
        let p1 = if q % 2 == 0 { prev ^ (1u32 << (flips[b] as u32)) } else { prev };
        p1 ^ (1u32 << (n as u32))
    }
}

/// one step of the running minimum: an older visited table is still not below the (possibly replaced) best
pub proof fn lemma_min_step(x: Seq<u64>, old_best: Seq<u64>, new_best: Seq<u64>, cur: Seq<u64>)
    requires !lex_lt(x, old_best), (new_best == old_best) || (new_best == cur && lex_lt(cur, old_best))
    ensures !lex_lt(x, new_best)
{
    if new_best != old_best && lex_lt(x, cur) { lemma_lex_trans(x, cur, old_best); }
}
