"""splice - builds the single-file Verus input of a unit.

A unit file (contracts/verus/<unit>.vu) is a list of sections:

  @@source <path relative to /repo>      following @@const/@@fn/@@stub read this file
  @@raw                                  specification text copied as is (spec fns, lemmas,
                                         assume_specifications) up to the next @@ line
  @@include <file under contracts/verus> the same, from a shared file
  @@const NAME                           constant item extracted verbatim
  @@constslice NAME <ensures text...>    `const NAME: &[..] = ..;` turned into an external_body
                                         exec const (DESIGN 2.3 rule 5); the literal stays verbatim
  @@fn NAME                              function extracted verbatim, then sub-sections:
        @attr <text>                     attribute line put in front of the function
        @ret NAME                        `-> T` becomes `-> (NAME: T)`
        @sig                             requires/ensures/decreases placed after the signature
        @body begin | @body end          ghost text at the start / end of the function body
        @body stmt J pre                 ghost text before top-level statement J of the body
        @loop K pre | post               ghost text before / after the K-th loop (source order)
        @loop K head [BINDER]            invariant/decreases text placed at the loop head;
                                         BINDER names the ghost iterator (`for x in BINDER: e`)
        @loop K begin | end              ghost text at the start / end of the loop body
        @loop K stmt J pre               ghost text before top-level statement J of the loop body
        @block B begin | end             the same for the B-th statement block of the function
        @block B stmt J pre              (if/else branches, loop bodies; pre-order, block 0 = body)
        @rewrite <old> ==> <new>         exact-text replacement inside the function (must match
                                         exactly once); used only for the rules listed in DESIGN 2.3
        @dropline <text>                 a body line whose stripped text equals <text> is dropped
  @@stub NAME from UNIT                  external_body declaration of NAME carrying the @sig of
                                         NAME in UNIT (the callee is verified in that unit)
  @@stubsig NAME                         external_body declaration with an explicit @sig/@ret
                                         (contract discharged by another back end)

Everything added is specification syntax that erases; nothing in an extracted
body is rewritten except by the rules above.
"""
import os
import re
import rsx

HEADER = """#![feature(panic_internals)]
#![feature(sized_hierarchy)]
#![allow(unused)]
use vstd::prelude::*;
use vstd::std_specs::iter::IteratorSpec;
use vstd::std_specs::cmp::*;
verus! {
global size_of usize == 8;
"""
FOOTER = "\n} // verus!\nfn main() {}\n"


class SpliceError(Exception):
    """Lost anchor / unsupported shape: the unit is UNDECIDED, never an alarm."""


class FnContract:
    def __init__(self, name):
        self.name = name
        self.attrs = []
        self.ret = None
        self.sig = ""
        self.parts = []      # (kind, k, j, binder, text)
        self.rewrites = []
        self.droplines = []
        self.source = None
        self.stub_from = None
        self.is_stub = False


class Unit:
    def __init__(self, name):
        self.name = name
        self.sections = []   # ("raw", text) | ("const", src, name) | ("constslice", src, name, ens) | ("fn", FnContract)
        self.path = None

    def fn_contracts(self):
        return [s[1] for s in self.sections if s[0] == "fn"]


def parse_unit(path, contracts_dir):
    name = os.path.splitext(os.path.basename(path))[0]
    u = Unit(name)
    u.path = path
    lines = open(path).read().split("\n")
    i = 0
    source = None
    cur_fn = None
    cur_part = None
    buf = []

    def flush_part():
        nonlocal cur_part, buf
        if cur_part is not None and cur_fn is not None:
            text = "\n".join(buf)
            kind = cur_part[0]
            if kind == "sig":
                cur_fn.sig = text
            else:
                cur_fn.parts.append(cur_part + (text,))
        cur_part = None
        buf = []

    raw_buf = None

    def flush_raw():
        nonlocal raw_buf
        if raw_buf is not None:
            u.sections.append(("raw", "\n".join(raw_buf)))
        raw_buf = None

    while i < len(lines):
        ln = lines[i]
        i += 1
        if ln.startswith("@@"):
            flush_part()
            flush_raw()
            cur_fn = None
            w = ln[2:].split(None, 1)
            d = w[0]
            arg = w[1].strip() if len(w) > 1 else ""
            if d == "source":
                source = arg
            elif d == "raw":
                raw_buf = []
            elif d == "include":
                u.sections.append(("raw", open(os.path.join(contracts_dir, arg)).read()))
            elif d == "const":
                u.sections.append(("const", source, arg))
            elif d == "constslice":
                nm, ens = arg.split(None, 1)
                u.sections.append(("constslice", source, nm, ens))
            elif d in ("fn", "stub", "stubsig"):
                parts = arg.split()
                fc = FnContract(parts[0])
                fc.source = source
                if d == "stub":
                    fc.is_stub = True
                    fc.stub_from = parts[2]
                elif d == "stubsig":
                    fc.is_stub = True
                u.sections.append(("fn", fc))
                cur_fn = fc
            elif d == "end":
                pass
            else:
                raise SpliceError("%s: unknown directive @@%s" % (path, d))
            continue
        if raw_buf is not None:
            raw_buf.append(ln)
            continue
        if cur_fn is not None and ln.startswith("@"):
            flush_part()
            w = ln[1:].split()
            d = w[0]
            if d == "attr":
                cur_fn.attrs.append(ln[len("@attr "):])
            elif d == "ret":
                cur_fn.ret = w[1]
            elif d == "sig":
                cur_part = ("sig",)
            elif d == "body":
                if w[1] in ("begin", "end"):
                    cur_part = ("body_" + w[1], None, None, None)
                elif w[1] == "stmt":
                    cur_part = ("body_stmt", None, int(w[2]), None)
                else:
                    raise SpliceError("bad @body line: " + ln)
            elif d == "block":
                b = int(w[1])
                if w[2] in ("begin", "end"):
                    cur_part = ("block_" + w[2], b, None, None)
                elif w[2] == "stmt":
                    cur_part = ("block_stmt", b, int(w[3]), None)
                else:
                    raise SpliceError("bad @block line: " + ln)
            elif d == "loop":
                k = int(w[1])
                what = w[2]
                if what == "head":
                    cur_part = ("loop_head", k, None, w[3] if len(w) > 3 else None)
                elif what in ("pre", "post", "begin", "end"):
                    cur_part = ("loop_" + what, k, None, None)
                elif what == "stmt":
                    cur_part = ("loop_stmt", k, int(w[3]), None)
                else:
                    raise SpliceError("bad @loop line: " + ln)
            elif d == "rewrite":
                old, new = ln[len("@rewrite "):].split(" ==> ")
                cur_fn.rewrites.append((old, new))
            elif d == "dropline":
                cur_fn.droplines.append(ln[len("@dropline "):].strip())
            else:
                raise SpliceError("%s: unknown directive @%s" % (path, d))
            continue
        if cur_part is not None:
            buf.append(ln)
    flush_part()
    flush_raw()
    return u


_file_cache = {}


def load_source(repo, rel):
    p = os.path.join(repo, rel)
    key = (p, os.path.getmtime(p))
    if key not in _file_cache:
        _file_cache[key] = rsx.File(open(p).read())
    return _file_cache[key]


def strip_docs(F, lo, hi):
    """Text of src[lo:hi] with doc comments removed (rule 1)."""
    out = []
    pos = lo
    for t in F.all:
        if t.kind == "doc" and lo <= t.start < hi:
            out.append(F.src[pos:t.start])
            pos = t.end
    out.append(F.src[pos:hi])
    return "".join(out)


def render_fn(F, fc, profile, vacuity=False, all_units=None):
    """Returns the annotated text of one function."""
    try:
        f = F.fn(fc.name)
    except rsx.RsxError as e:
        raise SpliceError("lost anchor: %s" % e)
    src = F.src
    ins = {}   # offset -> [texts]; inserted before the char at offset

    def add(off, text, prio=0):
        ins.setdefault(off, []).append((prio, text))

    def loop(k):
        if k >= len(f.loops):
            raise SpliceError("lost anchor: %s has %d loop(s), contract names loop %d" % (fc.name, len(f.loops), k))
        return f.loops[k]

    def block(b):
        if b >= len(f.blocks):
            raise SpliceError("lost anchor: %s has %d block(s), contract names block %d" % (fc.name, len(f.blocks), b))
        return f.blocks[b]

    def stmt(lst, j, what):
        if j >= len(lst):
            raise SpliceError("lost anchor: %s %s has %d statement(s), contract names statement %d" % (fc.name, what, len(lst), j))
        return lst[j]

    sig = fc.sig
    if vacuity:
        if re.search(r"\bensures\b", sig):
            sig = re.sub(r"\bensures\b", "ensures false,", sig, count=1)
        else:
            m = re.search(r"\bdecreases\b", sig)
            if m:
                sig = sig[:m.start()] + "ensures false,\n" + sig[m.start():]
            else:
                sig = sig + "\n    ensures false,"
    for (kind, k, j, binder, text) in fc.parts:
        if kind == "body_begin":
            add(f.body_open + 1, "\n" + text)
        elif kind == "body_end":
            add(f.body_close, text + "\n", prio=-1)
        elif kind == "body_stmt":
            s = stmt(f.stmts, j, "body")
            add(s[0], text + "\n")
        elif kind == "block_begin":
            add(block(k).open + 1, "\n" + text)
        elif kind == "block_end":
            add(block(k).close, text + "\n", prio=-1)
        elif kind == "block_stmt":
            s = stmt(block(k).stmts, j, "block %d" % k)
            add(s[0], text + "\n")
        elif kind == "loop_pre":
            add(loop(k).start, text + "\n")
        elif kind == "loop_post":
            add(loop(k).close + 1, "\n" + text, prio=-1)
        elif kind == "loop_begin":
            add(loop(k).brace + 1, "\n" + text)
        elif kind == "loop_end":
            add(loop(k).close, text + "\n", prio=-1)
        elif kind == "loop_stmt":
            s = stmt(loop(k).stmts, j, "loop %d" % k)
            add(s[0], text + "\n")
        elif kind == "loop_head":
            L = loop(k)
            if binder:
                if L.kind != "for":
                    raise SpliceError("lost anchor: %s loop %d is not a for loop" % (fc.name, k))
                add(L.in_end, " " + binder + ":")
            add(L.brace, "\n" + text + "\n")
    # signature splice
    if f.ret_span is not None:
        if fc.ret:
            add(f.ret_span[0], "(" + fc.ret + ": ")
            add(f.ret_span[1], ")")
    elif fc.ret:
        raise SpliceError("lost anchor: %s has no return type, contract names one" % fc.name)
    lo = f.fn_start
    if fc.is_stub:
        head = src[lo:f.sig_end]
        # re-apply the return-name splice on the signature text only
        pieces = []
        pos = lo
        for off in sorted(o for o in ins if lo <= o <= f.sig_end and (f.ret_span and o in (f.ret_span[0], f.ret_span[1]))):
            pieces.append(src[pos:off])
            pieces.extend(t for _, t in ins[off])
            pos = off
        pieces.append(src[pos:f.sig_end])
        head = "".join(pieces)
        return "#[verifier::external_body]\n" + "".join(a + "\n" for a in fc.attrs) + head.rstrip() + "\n" + sig + "\n{ unimplemented!() }\n"
    add(f.sig_end, "\n" + sig + "\n")
    # assemble
    out = []
    pos = lo
    hi = f.body_close + 1
    for off in sorted(ins):
        if off < lo or off > hi:
            raise SpliceError("internal: splice offset outside function %s" % fc.name)
        out.append(src[pos:off])
        for _, t in sorted(ins[off], key=lambda x: -x[0]):
            out.append(t)
        pos = off
    out.append(src[pos:hi])
    text = "".join(out)
    # rule 1: doc comments inside the item
    text = "\n".join(l for l in text.split("\n") if not l.strip().startswith("///"))
    for old, new in fc.rewrites:
        if old.startswith("re:"):
            # pattern form (still one of the rules listed in DESIGN 2.3): must match exactly once
            rx = re.compile(old[3:])
            k = len(rx.findall(text))
            if k != 1:
                raise SpliceError("lost anchor: rewrite pattern %r matches %d time(s) in %s" % (old[3:], k, fc.name))
            text = rx.sub(new, text)
            continue
        if text.count(old) != 1:
            raise SpliceError("lost anchor: rewrite target %r occurs %d time(s) in %s" % (old, text.count(old), fc.name))
        text = text.replace(old, new)
    for dl in fc.droplines:
        ls = text.split("\n")
        n = sum(1 for l in ls if l.strip() == dl)
        if n != 1:
            raise SpliceError("lost anchor: line %r occurs %d time(s) in %s" % (dl, n, fc.name))
        text = "\n".join(l for l in ls if l.strip() != dl)
    if profile == "release":
        # rule 3: cfg(debug_assertions)=off deletes debug_assert*! statements
        text = drop_debug_asserts(text)
    return "".join(a + "\n" for a in fc.attrs) + text + "\n"


def drop_debug_asserts(text):
    out = []
    i = 0
    while True:
        m = re.search(r"\bdebug_assert(_eq|_ne)?!\s*\(", text[i:])
        if not m:
            out.append(text[i:])
            break
        s = i + m.start()
        out.append(text[i:s])
        j = i + m.end()
        depth = 1
        while depth:
            c = text[j]
            if c == "(":
                depth += 1
            elif c == ")":
                depth -= 1
            j += 1
        while text[j].isspace():
            j += 1
        if text[j] == ";":
            j += 1
        i = j
    return "".join(out)


def render_const(F, name):
    try:
        c = F.const(name)
    except rsx.RsxError as e:
        raise SpliceError("lost anchor: %s" % e)
    return strip_docs(F, c.start, c.end) + "\n"


def render_constslice(F, name, ens):
    try:
        c = F.const(name)
    except rsx.RsxError as e:
        raise SpliceError("lost anchor: %s" % e)
    ty = F.src[c.ty_span[0]:c.ty_span[1]]
    ty2 = ty.replace("&", "&'static ")
    val = F.src[c.val_span[0]:c.val_span[1]]
    return "#[verifier::external_body]\nexec const %s: %s\n    ensures %s\n{ %s }\n" % (name, ty2, ens, val)


def generate(unit, repo, contracts_dir, profile="debug", vacuity=False, units_by_name=None, force_stub=()):
    """Returns (text, fn_names, line_map) ; line_map: list of (first_line, last_line, label).
    force_stub: names of contracted functions to emit as external_body stubs carrying their own contract (used when a
    function's current text is outside the verifier's subset: it becomes UNDECIDED, the rest of the unit is still checked)."""
    chunks = [HEADER]
    labels = []
    fn_names = []

    def cur_line():
        return "".join(chunks).count("\n") + 1

    for sec in unit.sections:
        if sec[0] == "raw":
            chunks.append(sec[1] + "\n")
        elif sec[0] == "const":
            F = load_source(repo, sec[1])
            chunks.append(render_const(F, sec[2]))
        elif sec[0] == "constslice":
            F = load_source(repo, sec[1])
            chunks.append(render_constslice(F, sec[2], sec[3]))
        elif sec[0] == "fn":
            fc = sec[1]
            F = load_source(repo, fc.source)
            use = fc
            if fc.stub_from:
                other = units_by_name[fc.stub_from]
                cand = [x for x in other.fn_contracts() if x.name == fc.name and not x.is_stub]
                if not cand:
                    raise SpliceError("stub %s: no contract in unit %s" % (fc.name, fc.stub_from))
                use = FnContract(fc.name)
                use.sig, use.ret, use.attrs = cand[0].sig, cand[0].ret, [a for a in cand[0].attrs]
                use.is_stub = True
                use.source = fc.source
            elif fc.name in force_stub and not fc.is_stub:
                use = FnContract(fc.name)
                use.sig, use.ret, use.attrs = fc.sig, fc.ret, [a for a in fc.attrs]
                use.is_stub = True
                use.source = fc.source
            a = cur_line()
            txt = render_fn(F, use, profile)
            chunks.append(txt)
            labels.append((a, cur_line() - 1, fc.name, use.is_stub))
            if not use.is_stub:
                fn_names.append(fc.name)
                if vacuity:
                    # vacuity guard: a copy of the function that must NOT verify `ensures false`
                    # (a copy, so that callers of the original keep seeing the real contract)
                    a = cur_line()
                    vt = render_fn(F, use, profile, vacuity=True)
                    vt2 = re.sub(r"\bfn\s+%s\b" % re.escape(fc.name), "fn vf_vac_" + fc.name, vt, count=1)
                    if vt2 == vt:
                        raise SpliceError("internal: cannot rename %s for the vacuity copy" % fc.name)
                    chunks.append(vt2)
                    labels.append((a, cur_line() - 1, "vf_vac_" + fc.name, False))
    chunks.append(FOOTER)
    return "".join(chunks), fn_names, labels
