"""Replay of a recorded violation against /repo's current tree."""
import json
import os

import common
import kbackend
import plan as planmod


def replay(pid, path):
    rec = json.load(open(path))
    pl = planmod.PLAN[pid]
    kind = rec.get("kind")
    ob = rec.get("obligation", {})
    print("replaying %s obligation %s (%s)" % (pid, ob.get("id"), kind))
    if kind == "kani-counterexample" or (rec.get("replay") or {}).get("harness"):
        files = [os.path.join(common.CONTRACTS, "kani", f) for f in pl.get("kani_units", [])]
        ov = kbackend.build_overlay(files, tag="replay", extra_rewrites=pl.get("overlay_rewrites"), extra_dirs=pl.get("overlay_dirs"))
        rep = kbackend.counterexample(ov, rec["replay"]["harness"], features=pl.get("kani_features"))
        print(json.dumps(rep, indent=1)[:3000])
        if rep.get("reproduced"):
            print("VIOLATION property=%s replay=%s" % (pid, path))
            return 1
        print("not reproduced on the current tree")
        return 0
    # otherwise: re-run the whole check (the obligation is named in the file)
    import driver
    return driver.check(pid, "quick")
