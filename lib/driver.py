"""Driver: runs the obligations of one property on /repo's current tree and decides.

Exit codes: 0 held / known findings only; 1 VIOLATION; 2 UNDECIDED (machinery could not form or
decide an obligation - never an alarm).
"""
import concurrent.futures as cf
import json
import os
import re
import sys
import time

import common
import kbackend
import vbackend
import gbackend
import plan as planmod

BASELINE_PATH = os.path.join(common.CONTRACTS, "BASELINE_OBLIGATIONS.json")
KNOWN_PATH = os.path.join(common.VERIF, "known_findings.json")


class Obligation:
    def __init__(self, oid, backend, what, status, detail=None, time_s=0.0, label=""):
        self.id = oid              # e.g. V:kernels:flip_inplace:debug / K:c03q_flip_n7_i3 / G:flips_cover_n5
        self.backend = backend     # verus / kani / ground
        self.what = what           # function or fact the obligation is about
        self.status = status       # ok / failed / undecided
        self.detail = detail or {}
        self.time_s = time_s
        self.label = label         # complete(N=..) / bounded(..) / unbounded

    def to_json(self):
        d = {"id": self.id, "backend": self.backend, "about": self.what, "status": self.status,
             "time_s": round(self.time_s, 2)}
        if self.label:
            d["scope"] = self.label
        if self.status != "ok" and self.detail:
            d["detail"] = self.detail
        return d


def load_json(path, default):
    try:
        return json.load(open(path))
    except (OSError, ValueError):
        return default


# ------------------------------------------------------------------ Verus
def run_verus_units(units, names, obligations, assumptions, meta):
    jobs = []
    for n in names:
        jobs.append((n, "debug", True))
        jobs.append((n, "release", False))
    results = []
    with cf.ThreadPoolExecutor(max_workers=min(len(jobs), common.ncpu()) or 1) as ex:
        futs = {ex.submit(vbackend.run_unit, units, n, prof, vac): (n, prof, vac) for (n, prof, vac) in jobs}
        for fu in cf.as_completed(futs):
            results.append((futs[fu], fu.result()))
    results.sort(key=lambda x: (x[0][0], x[0][1]))
    for (n, prof, vac), r in results:
        meta["verus_runs"].append({"unit": n, "profile": prof, "status": r.status, "verified": r.verified,
                                   "errors": r.errors, "wall_s": round(r.wall_s, 1), "smt_ms": r.smt_ms,
                                   "cmd": r.cmd, "reason": r.reason[:400]})
        for a in r.assumptions:
            s = "verus unit %s: %s" % (n, a)
            if s not in assumptions:
                assumptions.append(s)
        if r.status == "undecided":
            obligations.append(Obligation("V:%s:*:%s" % (n, prof), "verus", "unit " + n, "undecided",
                                          {"reason": r.reason}, r.wall_s))
            continue
        vac_names = set()
        for fn in r.contracted:
            if fn in r.lost:
                obligations.append(Obligation("V:%s:%s:%s" % (n, fn, prof), "verus", fn, "undecided",
                                              {"reason": "function could not be brought before the verifier (%s); it is assumed by its contract in the rest of the unit" % r.lost[fn][:300]},
                                              0, "unbounded"))
                continue
            fr = r.fns.get(fn)
            ok = fr is not None and fr.ok
            obligations.append(Obligation("V:%s:%s:%s" % (n, fn, prof), "verus", fn,
                                          "ok" if ok else ("undecided" if r.reason == "rlimit" and fr and any("rlimit" in m or "Resource" in m for m in fr.messages) else "failed"),
                                          {"messages": fr.messages if fr else []}, (fr.time_ms if fr else 0) / 1000.0, "unbounded"))
            vac_names.add("vf_vac_" + fn)
        if vac:
            for fn in r.contracted:
                if fn in r.lost:
                    continue
                fr = r.fns.get("vf_vac_" + fn)
                refuted = fr is not None and fr.ok is False
                obligations.append(Obligation("VAC:%s:%s" % (n, fn), "verus", "vacuity guard of " + fn,
                                              "ok" if refuted else "undecided",
                                              {"reason": "`ensures false` was NOT refuted: contradictory precondition or function not checked"},
                                              (fr.time_ms if fr else 0) / 1000.0, "guard"))
        # lemmas and other proof functions of the unit (debug run only: they do not depend on the profile)
        if prof == "debug":
            for nm, fr in sorted(r.fns.items()):
                if nm in r.contracted or nm in vac_names or nm.startswith("vf_vac_"):
                    continue
                obligations.append(Obligation("V:%s:lemma:%s" % (n, nm), "verus", nm,
                                              "ok" if fr.ok else "failed", {"messages": fr.messages}, fr.time_ms / 1000.0, "unbounded"))


# ------------------------------------------------------------------- Kani
OVERFLOW_RE = re.compile(r"attempt to .* with overflow|attempt to shift|attempt to negate|arithmetic overflow|attempt to divide|attempt to calculate the remainder")


def profile_dependent(c, overlay):
    """A failed check that exists only with debug assertions / overflow checks on."""
    if OVERFLOW_RE.search(c.get("desc", "")):
        return "overflow check (debug builds only): " + c.get("desc", "")
    if c.get("file") and c.get("line"):
        try:
            ln = open(os.path.join(overlay, c["file"])).read().split("\n")[c["line"] - 1].strip()
        except (OSError, IndexError):
            ln = ""
        if ln.startswith("debug_assert"):
            return "debug_assert (debug builds only): " + ln
    return None


def panic_obligation(name, h, scope, overlay):
    """C17 obligation: the call never returns and panics through a profile-independent check."""
    if h.status not in ("ok", "failed"):
        return Obligation("K:" + name, "kani", name, "undecided", {"reason": "harness %s (%s)" % (h.status, h.text[-300:].replace("\n", " | "))}, h.time_s, scope)
    if h.covers_total != 1:
        return Obligation("K:" + name, "kani", name, "undecided", {"reason": "expected exactly one `returned` cover, found %d" % h.covers_total}, h.time_s, scope)
    unw = [c for c in h.failed_checks if c.get("desc", "").startswith("unwinding assertion")]
    if unw:
        return Obligation("K:" + name, "kani", name, "undecided", {"reason": "unwinding bound of the harness exceeded"}, h.time_s, scope)
    if h.covers_sat > 0:
        return Obligation("K:" + name, "kani", name, "failed",
                          {"failed_checks": [{"desc": "the call RETURNS for some invalid argument (cover `returned` is satisfiable)", "file": "", "line": 0, "fn": ""}] + h.failed_checks[:6],
                           "full": h.full, "panic_kind": "returns"}, h.time_s, scope)
    if not h.failed_checks:
        return Obligation("K:" + name, "kani", name, "undecided", {"reason": "no execution returns but no failing check was reported"}, h.time_s, scope)
    dep = [(c, profile_dependent(c, overlay)) for c in h.failed_checks]
    bad = [(c, why) for c, why in dep if why]
    if bad:
        return Obligation("K:" + name, "kani", name, "failed",
                          {"failed_checks": [dict(c, desc="panic depends on the build profile: " + why) for c, why in bad] , "full": h.full, "panic_kind": "profile"},
                          h.time_s, scope)
    return Obligation("K:" + name, "kani", name, "ok", {"checks": h.checks_total, "panics_at": ["%s:%s %s" % (c["file"], c["line"], c["desc"]) for c in h.failed_checks[:3]]}, h.time_s, scope)


def _jobs(pl, tier):
    """Parallelism of the Kani run: properties whose triples need several GB each run fewer of them at a time
    (an out-of-memory kill of one CBMC process takes the whole cargo-kani run down)."""
    j = pl.get("kani_jobs")
    if isinstance(j, dict):
        j = j.get(tier)
    if j:
        return max(1, min(int(j), common.ncpu()))
    return None


def run_kani_set(pl, tier, obligations, assumptions, meta, filters=None, tag="k"):
    files = [os.path.join(common.CONTRACTS, "kani", f) for f in pl.get("kani_units", [])]
    if not files:
        return None, {}
    if filters is None:
        filters = list(pl["kani_filters"]["quick"])
        if tier == "thorough":
            filters += pl["kani_filters"].get("thorough", [])
    if not filters:
        return None, {}
    try:
        ov = kbackend.build_overlay(files, tag=tag, extra_rewrites=pl.get("overlay_rewrites"),
                                    extra_dirs=pl.get("overlay_dirs"))
    except kbackend.KaniError as e:
        obligations.append(Obligation("K:*", "kani", "overlay", "undecided", {"reason": str(e)}))
        return None, {}
    expected = set()
    for f in files:
        for h in kbackend.harness_names(open(f).read()):
            if any(h.startswith(x) or x in h for x in filters):
                expected.add(h)
    ht = pl.get("harness_timeout", {}).get(tier, 300 if tier == "quick" else 1800)
    res, text, wall, rc, cmd = kbackend.run_kani(ov, filters, harness_timeout=ht,
                                                 total_timeout=pl.get("total_timeout", {}).get(tier, 3600 if tier == "quick" else 6 * 3600),
                                                 features=pl.get("kani_features"), jobs=_jobs(pl, tier))
    meta["kani_runs"].append({"cmd": cmd, "wall_s": round(wall, 1), "rc": rc, "harnesses": len(res)})
    # harnesses that produced no verdict for a resource reason (CBMC out of memory under parallel load, or missing from
    # the interleaved output) are run once more, two at a time
    retry = [n for n in sorted(expected) if n not in res or (res[n].status == "error" and (re.search(r"out of memory|Killed|signal", res[n].text) or "VERIFICATION" not in res[n].text))]
    if res and retry:
        # (the Kani driver itself can die when the machine runs out of memory; everything it had not reported yet is retried)
        res2, text2, wall2, rc2, cmd2 = kbackend.run_kani(ov, retry, harness_timeout=ht, total_timeout=pl.get("total_timeout", {}).get(tier, 3600 if tier == "quick" else 6 * 3600),
                                                      features=pl.get("kani_features"), jobs=2 if len(retry) <= 8 else max(2, common.ncpu() // 4), exact=False)
        meta["kani_runs"].append({"cmd": cmd2, "wall_s": round(wall2, 1), "rc": rc2, "harnesses": len(res2), "retry_of": len(retry)})
        for n, h in res2.items():
            if n in retry:
                res[n] = h
        wall += wall2
    if not res:
        m = re.findall(r"^error.*$", text, re.M)
        obligations.append(Obligation("K:*", "kani", "build", "undecided",
                                      {"reason": "cargo kani produced no harness result (rc=%s): %s" % (rc, "; ".join(m[:5]) or text[-800:])}, wall))
        return ov, res
    scopes = pl.get("kani_scope", {})
    for name in sorted(set(res) | expected):
        h = res.get(name)
        scope = ""
        for rx, sc in scopes.items():
            if re.search(rx, name):
                scope = sc
                break
        if h is None:
            obligations.append(Obligation("K:" + name, "kani", name, "undecided", {"reason": "harness did not run"}, 0, scope))
            continue
        if pl.get("panic_re") and re.search(pl["panic_re"], name):
            obligations.append(panic_obligation(name, h, scope, ov))
            continue
        if h.status == "ok":
            if h.covers_total > 0 and h.covers_sat < h.covers_total:
                obligations.append(Obligation("K:" + name, "kani", name, "undecided",
                                              {"reason": "vacuous: %d of %d reachability covers satisfied" % (h.covers_sat, h.covers_total)}, h.time_s, scope))
            else:
                obligations.append(Obligation("K:" + name, "kani", name, "ok", {"checks": h.checks_total}, h.time_s, scope))
        elif h.status == "failed" and h.failed_checks and all(c.get("desc", "").startswith("unwinding assertion") for c in h.failed_checks):
            # the harness' own bound is too small for a loop: the obligation could not be formed, nothing is refuted
            obligations.append(Obligation("K:" + name, "kani", name, "undecided",
                                          {"reason": "unwinding bound of the harness exceeded (%s); no property check failed" % h.failed_checks[0].get("desc", "")}, h.time_s, scope))
        elif h.status == "failed":
            obligations.append(Obligation("K:" + name, "kani", name, "failed",
                                          {"failed_checks": h.failed_checks[:10], "full": h.full}, h.time_s, scope))
        else:
            obligations.append(Obligation("K:" + name, "kani", name, "undecided",
                                          {"reason": "harness %s (%s)" % (h.status, h.text[-300:].replace("\n", " | "))}, h.time_s, scope))
    return ov, res


def profile_scan(assumptions):
    """C17 reduction, checked syntactically on the current tree: the only constructs whose behaviour depends on the build
    profile are debug_assert* and arithmetic-overflow checks.  An explicit cfg on debug_assertions / overflow_checks would
    be a third kind that the obligations do not model: then the reduction (and the property) is UNDECIDED."""
    bad, listed = [], []
    src = os.path.join(common.REPO, "src")
    for dp, dn, fns in os.walk(src):
        for f in sorted(fns):
            if not f.endswith(".rs"):
                continue
            rel = os.path.relpath(os.path.join(dp, f), common.REPO)
            for i, ln in enumerate(open(os.path.join(dp, f), errors="replace").read().split("\n"), 1):
                code = ln.split("//")[0]
                if re.search(r"cfg!?\s*\(\s*(not\s*\(\s*)?(debug_assertions|overflow_checks)", code) or "unchecked_" in code:
                    bad.append("%s:%d: %s" % (rel, i, ln.strip()[:100]))
                elif re.search(r"\b(wrapping|overflowing|saturating|checked)_\w+\(", code):
                    listed.append("%s:%d: %s" % (rel, i, ln.strip()[:80]))
    assumptions.append("profile scan: profile-independent arithmetic helpers in the source (same behaviour in every profile): " + ("; ".join(listed) or "none"))
    if bad:
        return Obligation("S:profile_scan", "scan", "profile-dependent constructs", "undecided",
                          {"reason": "explicit profile-dependent construct(s) outside the C17 reduction: " + "; ".join(bad[:5])}, 0, "whole source tree")
    return Obligation("S:profile_scan", "scan", "profile-dependent constructs", "ok", {}, 0, "whole source tree (syntactic)")


# ------------------------------------------------------------------ decide
def known_match(known, pid, ob, witness=""):
    for k in known.get("findings", []):
        if k.get("property") != pid:
            continue
        if k.get("obligation") and not re.search(k["obligation"], ob.id):
            continue
        if k.get("witness") and k["witness"] not in witness and k["witness"] not in json.dumps(ob.detail):
            continue
        return k
    return None


def write_replay(pid, ob, extra):
    os.makedirs(common.FINDINGS, exist_ok=True)
    path = os.path.join(common.FINDINGS, "%s_%s.json" % (pid, re.sub(r"[^A-Za-z0-9_.-]", "_", ob.id)))
    common.write_json(path, dict({"property": pid, "obligation": ob.to_json()}, **extra))
    return path


def check(pid, tier, record_baseline=False, force_escalation=False):
    t0 = time.time()
    pl = planmod.PLAN.get(pid)
    if pl is None:
        print("property %s is not claimed (see MANIFEST.json not_applicable)" % pid)
        return 2
    obligations = []
    assumptions = list(pl.get("assumptions", []))
    meta = {"verus_runs": [], "kani_runs": [], "ground_runs": []}
    units = vbackend.load_units()
    with cf.ThreadPoolExecutor(max_workers=3) as ex:
        futs = []
        if pl.get("verus_units"):
            futs.append(ex.submit(run_verus_units, units, pl["verus_units"], obligations, assumptions, meta))
        kres = {}
        kov = [None]

        def kjob():
            ov, res = run_kani_set(pl, tier, obligations, assumptions, meta)
            kov[0] = ov
            kres.update(res or {})
        if pl.get("kani_units"):
            futs.append(ex.submit(kjob))
        if pl.get("ground"):
            futs.append(ex.submit(gbackend.run_ground, pl, tier, obligations, assumptions, meta))
        for fu in futs:
            fu.result()
    # when the unbounded engine cannot form its obligations (unit no longer extractable / outside the subset after a
    # change), the deeper bounded stand-in of the property is run as well (DESIGN 13): it can refute, it never proves more
    esc = pl.get("kani_escalation")
    if esc and tier == "quick" and (force_escalation or any(o.backend == "verus" and o.status == "undecided" for o in obligations)):
        have = {o.id for o in obligations}
        eob = []
        ov2, res2 = run_kani_set(pl, "thorough", eob, assumptions, meta, filters=esc, tag="esc")
        for o in eob:
            if o.id not in have:
                o.label = (o.label + "; " if o.label else "") + "escalation (Verus unit undecided)"
                obligations.append(o)
        if kov[0] is None:
            kov[0] = ov2
    if pl.get("profile_scan"):
        obligations.append(profile_scan(assumptions))
    obligations.sort(key=lambda o: o.id)

    baseline = load_json(BASELINE_PATH, {})
    base_ids = set(baseline.get(pid, {}).get(tier, []))
    if base_ids:      # (no recorded baseline for this tier: every failed obligation counts)
        base_ids |= set(baseline.get(pid, {}).get("escalation", []))
    known = load_json(KNOWN_PATH, {"findings": [], "fixed": []})

    failed = [o for o in obligations if o.status == "failed"]
    undecided = [o for o in obligations if o.status == "undecided"]
    violations = []      # (ob, replay_path, has_input)
    known_hits = []
    proof_lost = []
    def native_observable(o):
        # failed checks that a native run can observe come first (a violated `kani::ensures` closure is not one)
        descs = [c.get("desc", "") for c in o.detail.get("failed_checks", [])]
        return 0 if any(not d.startswith("|") for d in descs) else 1
    failed.sort(key=lambda o: (o.backend != "kani", native_observable(o), o.id))
    twin_done = set()
    for ob in failed:
        if base_ids and ob.id not in base_ids and not record_baseline:
            ob.status = "undecided"
            ob.detail["reason"] = "obligation failed but is not in the committed baseline of discharged obligations"
            undecided.append(ob)
            continue
        if ob.backend == "kani":
            n_cex = len([v for v in violations if v[0].backend == "kani"])
            rep = kbackend.counterexample(kov[0], ob.detail.get("full") or ob.what, features=pl.get("kani_features"), returns=(ob.detail.get("panic_kind") == "returns")) if (kov[0] and n_cex < 2) else {"harness": ob.detail.get("full") or ob.what, "note": "counterexample extraction limited to the first two failed harnesses"}
            if rep.get("rerun_successful"):
                ob.status = "undecided"
                ob.detail["reason"] = "the harness failed in the parallel run but verified when re-run alone (resource exhaustion); nothing refuted"
                undecided.append(ob)
                continue
            witness = json.dumps(rep.get("values", ""))
            k = known_match(known, pid, ob, witness)
            if k:
                known_hits.append((ob, k))
                continue
            path = write_replay(pid, ob, {"kind": "kani-counterexample", "replay": rep,
                                          "how_to_replay": "bin/check %s --replay %s" % (pid, "<this file>")})
            violations.append((ob, path, bool(rep.get("reproduced"))))
        elif ob.backend == "ground":
            k = known_match(known, pid, ob, json.dumps(ob.detail))
            if k:
                known_hits.append((ob, k))
                continue
            path = write_replay(pid, ob, {"kind": "ground-witness"})
            violations.append((ob, path, True))
        else:
            # Verus gives no counterexample: try the Kani twin, then the native searcher
            twins = pl.get("twins", {}).get(ob.what)
            rep = None
            twin_complete_pass = False
            kani_cex = [v for v in violations if v[0].backend == "kani" and v[2]]
            if kani_cex:
                # a Kani triple of this property has already been refuted with a replayed input: no twin run needed
                rep = {"reproduced": True, "note": "see the replayed Kani counterexample of %s (%s)" % (kani_cex[0][0].id, kani_cex[0][1]),
                       "values": "see " + kani_cex[0][1]}
            elif twins and (ob.what, "twin") not in twin_done:
                twin_done.add((ob.what, "twin"))
                # the quick twins first; the full (complete) set only when those pass, under a time budget
                qf = [f for f in twins["filters"] if re.match(r"c\d\d[q]_", f)]
                tf = [f for f in twins["filters"] if f not in qf]
                for stage, flt in (("quick", qf), ("full", tf)):
                    if not flt:
                        continue
                    tob = []
                    tmeta = {"verus_runs": [], "kani_runs": [], "ground_runs": []}
                    pl2 = dict(pl, total_timeout={"thorough": 2400}, harness_timeout={"thorough": 900})
                    ov2, res2 = run_kani_set(pl2, "thorough", tob, [], tmeta, filters=flt, tag="twin")
                    meta["kani_runs"] += [dict(r, twin_of=ob.id, stage=stage) for r in tmeta["kani_runs"]]
                    bad = [o for o in tob if o.status == "failed"]
                    if bad:
                        rep = kbackend.counterexample(ov2, bad[0].detail.get("full") or bad[0].what, features=pl.get("kani_features"))
                        rep["twin_harness"] = bad[0].what
                        break
                    if not (tob and all(o.status == "ok" for o in tob)):
                        break      # some twin undecided: no "proof lost" verdict
                    if stage == "full" and twins.get("complete"):
                        twin_complete_pass = True
            if rep is None and not twin_complete_pass and pl.get("searcher"):
                rep = gbackend.run_searcher(pl, ob)
            if twin_complete_pass:
                proof_lost.append(ob)
                continue
            witness = json.dumps((rep or {}).get("values", ""))
            k = known_match(known, pid, ob, witness)
            if k:
                known_hits.append((ob, k))
                continue
            path = write_replay(pid, ob, {"kind": "failed-verus-obligation", "verifier_output": ob.detail,
                                          "replay": rep or {}, "how_to_replay": "bin/check %s --replay <this file>" % pid})
            violations.append((ob, path, bool(rep and rep.get("reproduced"))))

    discharged = [o for o in obligations if o.status == "ok"]
    wall = time.time() - t0
    level = pl["level"]
    smt = sum(o.time_s for o in obligations)
    cov = {
        "obligations": len(obligations),
        "discharged": len(discharged) + len(known_hits) * 0,
        "checker_cmd": "; ".join([r["cmd"] for r in meta["verus_runs"][:1]] + [r["cmd"] for r in meta["kani_runs"][:1]] + [r["cmd"] for r in meta["ground_runs"][:1]]) or "none",
        "trusted_base": planmod.TRUSTED_BASE + pl.get("trusted", []),
        "functions_under_contract": pl.get("functions", []),
        "by_backend": {b: {"obligations": len([o for o in obligations if o.backend == b]),
                           "discharged": len([o for o in discharged if o.backend == b]),
                           "solver_time_s": round(sum(o.time_s for o in obligations if o.backend == b), 1)}
                       for b in ("verus", "kani", "ground", "scan")},
        "scopes": pl.get("scope_note", ""),
        "solver_time_s": round(smt, 1),
        "verus_runs": meta["verus_runs"],
        "kani_runs": meta["kani_runs"],
        "ground_runs": meta["ground_runs"],
        "failed": [o.to_json() for o in failed if o.status == "failed"],
        "undecided": [o.to_json() for o in undecided],
        "proof_lost": [o.to_json() for o in proof_lost],
        "known_findings": [{"obligation": o.id, "finding": k.get("what", "")} for o, k in known_hits],
        "slow_obligations": [o.id for o in obligations if o.time_s > 60],
        "samples": [o.to_json() for o in (discharged[:: max(1, len(discharged) // 6)][:8])],
        "obligation_list": [o.id + (" [" + o.label + "]" if o.label else "") for o in obligations],
        "exhaustive": False,
    }
    if level != "proof":
        # model_checking-level evidence uses the generic keys
        cov["evaluations"] = len(obligations)
        cov["distinct_nontrivial"] = len({o.id for o in discharged})
        cov["rule"] = "one case per bounded Kani triple / ground fact; all distinct by construction (distinct harnesses)"
    ev = {"property_id": pid, "tier": tier, "seed": common.seed(), "level": level, "coverage": cov,
          "assumptions": assumptions, "wall_s": round(wall, 1), "violations": len(violations)}
    common.write_json(os.path.join(common.EVIDENCE, pid + ".json"), ev)

    if record_baseline:
        if force_escalation:
            baseline.setdefault(pid, {})["escalation"] = sorted(o.id for o in discharged if "escalation" in o.label)
            discharged_for_tier = [o for o in discharged if "escalation" not in o.label]
        else:
            discharged_for_tier = discharged
        baseline.setdefault(pid, {})[tier] = sorted(o.id for o in discharged_for_tier)
        common.write_json(BASELINE_PATH, baseline)

    print("%s tier=%s: %d obligations, %d discharged, %d failed, %d undecided, %d proof-lost, %.0fs" %
          (pid, tier, len(obligations), len(discharged), len([o for o in failed if o.status == "failed"]), len(undecided), len(proof_lost), wall))
    for o, k in known_hits:
        print("KNOWN-FINDING: property=%s %s (%s)" % (pid, k.get("what", ""), o.id))
    for o in proof_lost:
        print("NOTE: unbounded proof of %s lost; the complete Kani triples over the property's stated range pass" % o.id)
    if violations:
        for ob, path, has_input in violations:
            msgs = ob.detail.get("messages") or [c.get("desc", "") for c in ob.detail.get("failed_checks", [])] or [json.dumps(ob.detail)[:200]]
            print("  failed obligation %s: %s" % (ob.id, "; ".join(m for m in msgs[:2])))
        ob, path, has_input = sorted(violations, key=lambda v: not v[2])[0]
        print("VIOLATION property=%s replay=%s%s" % (pid, path, "" if has_input else " no-failing-input-found"))
        return 1
    if undecided:
        for o in undecided[:10]:
            print("UNDECIDED property=%s obligation=%s reason=%s" % (pid, o.id, str(o.detail.get("reason", ""))[:300]))
        return 2
    return 0


def main(argv):
    import argparse
    ap = argparse.ArgumentParser()
    ap.add_argument("pid")
    ap.add_argument("--tier", default=os.environ.get("VERIF_TIER", "quick"))
    ap.add_argument("--record-baseline", action="store_true")
    ap.add_argument("--replay")
    ap.add_argument("--force-escalation", action="store_true", help="development: also run the escalation harnesses (to record them in the baseline)")
    a = ap.parse_args(argv)
    if a.tier not in ("quick", "thorough"):
        a.tier = "quick"
    if a.replay:
        import replay
        return replay.replay(a.pid, a.replay)
    return check(a.pid, a.tier, a.record_baseline, a.force_escalation)
