"""Paths, scratch directory and small helpers shared by the back ends."""
import atexit
import json
import os
import shutil
import subprocess
import sys
import time

VERIF = os.path.dirname(os.path.dirname(os.path.abspath(__file__)))
REPO = os.environ.get("VERIF_REPO", "/repo")
CONTRACTS = os.path.join(VERIF, "contracts")
EVIDENCE = os.path.join(VERIF, "evidence")
FINDINGS = os.path.join(VERIF, "findings")

_scratch = None
KEEP = bool(os.environ.get("VERIF_KEEP_SCRATCH"))


import threading
_scratch_lock = threading.Lock()


def scratch():
    """One scratch directory per invocation, outside /repo and /verif, removed on exit (thread-safe: the three back
    ends of a check start concurrently)."""
    global _scratch
    with _scratch_lock:
        if _scratch is None:
            base = os.environ.get("VERIF_SCRATCH_BASE", "/var/tmp")
            os.makedirs(base, exist_ok=True)
            d = os.path.join(base, "volute-verif.%d" % os.getpid())
            shutil.rmtree(d, ignore_errors=True)
            os.makedirs(d, exist_ok=True)
            if not KEEP:
                atexit.register(lambda: shutil.rmtree(d, ignore_errors=True))
            _scratch = d
    return _scratch


def seed():
    try:
        return int(os.environ.get("VERIF_SEED", "0"))
    except ValueError:
        return 0


def ncpu():
    try:
        return max(1, int(os.environ.get("VERIF_JOBS", os.cpu_count() or 4)))
    except ValueError:
        return 4


def _limit_as(gb):
    def f():
        import resource
        lim = int(gb * (1 << 30))
        resource.setrlimit(resource.RLIMIT_AS, (lim, lim))
    return f


def run(cmd, cwd=None, env=None, timeout=None, stdin=None, mem_gb=None):
    """Returns (rc, stdout, stderr, wall_s); rc = -9 on timeout.  mem_gb: address-space cap for the process tree."""
    t0 = time.time()
    e = dict(os.environ)
    if env:
        e.update(env)
    try:
        p = subprocess.run(cmd, cwd=cwd, env=e, timeout=timeout, input=stdin,
                           preexec_fn=_limit_as(mem_gb) if mem_gb else None,
                           stdout=subprocess.PIPE, stderr=subprocess.PIPE, text=True, errors="replace")
        return p.returncode, p.stdout, p.stderr, time.time() - t0
    except subprocess.TimeoutExpired as ex:
        out = ex.stdout.decode(errors="replace") if isinstance(ex.stdout, bytes) else (ex.stdout or "")
        err = ex.stderr.decode(errors="replace") if isinstance(ex.stderr, bytes) else (ex.stderr or "")
        return -9, out, err, time.time() - t0


def log(*a):
    print(*a, file=sys.stderr, flush=True)


def write_json(path, obj):
    os.makedirs(os.path.dirname(path), exist_ok=True)
    tmp = path + ".tmp"
    with open(tmp, "w") as f:
        json.dump(obj, f, indent=1, sort_keys=False)
        f.write("\n")
    os.replace(tmp, path)
