"""Ground evaluation and the native replay searcher.

Both append `#[cfg(test)]` modules to an overlay copy of /repo and run them with cargo test
(offline, --no-default-features).  Ground tests decide closed facts about constants of the current
tree (every test is one obligation); the searcher only attaches an input to a violation that a failed
Verus obligation has already established.
"""
import os
import re

import common
import kbackend


def _run_tests(files, filt, tag, env=None, timeout=3600, features=None):
    ov = kbackend.build_overlay(files, tag=tag)
    cmd = ["cargo", "test", "--offline", "--lib", "--target-dir", os.path.join(ov, "target"), "--no-default-features"]
    if features:
        cmd += ["--features", features]
    cmd += ["--", filt, "--test-threads", str(common.ncpu())]
    e = {"CARGO_NET_OFFLINE": "true", "CARGO_TERM_COLOR": "never", "RUST_BACKTRACE": "0",
         "CARGO_PROFILE_TEST_OPT_LEVEL": "3"}
    e.update(env or {})
    rc, out, err, wall = common.run(cmd, cwd=ov, env=e, timeout=timeout)
    text = out + "\n" + err
    results = {}
    for m in re.finditer(r"^test (\S+) \.\.\. (ok|FAILED|ignored)", text, re.M):
        results[m.group(1).split("::")[-1]] = m.group(2)
    panics = {}
    for m in re.finditer(r"^---- (\S+) stdout ----\n(.*?)(?=^----|\nfailures:|\Z)", text, re.M | re.S):
        panics[m.group(1).split("::")[-1]] = m.group(2).strip()[-1200:]
    return results, panics, text, wall, rc, " ".join(cmd)


def test_names(text, prefix_re):
    return [m.group(1) for m in re.finditer(r"#\[test\]\s*(?:#\[[^\]]*\]\s*)*fn\s+(\w+)", text) if re.match(prefix_re, m.group(1))]


def run_ground(pl, tier, obligations, assumptions, meta):
    from driver import Obligation
    files = [os.path.join(common.CONTRACTS, "ground", f) for f in pl["ground"]["units"]]
    prefixes = list(pl["ground"]["quick"]) + (pl["ground"].get("thorough", []) if tier == "thorough" else [])
    expected = []
    for f in files:
        for n in test_names(open(f).read(), r"g\d\d[qt]_"):
            if any(n.startswith(p) for p in prefixes):
                expected.append(n)
    try:
        # cargo test takes one filter substring; run once per prefix
        allres, allpan = {}, {}
        for p in prefixes:
            res, pan, text, wall, rc, cmd = _run_tests(files, p, "g")
            meta["ground_runs"].append({"cmd": cmd, "wall_s": round(wall, 1), "rc": rc, "tests": len(res)})
            if not res and rc != 0:
                m = re.findall(r"^error.*$", text, re.M)
                obligations.append(Obligation("G:*", "ground", "build", "undecided",
                                              {"reason": "ground module does not build: " + ("; ".join(m[:5]) or text[-600:])}, wall))
                return
            allres.update(res)
            allpan.update(pan)
    except kbackend.KaniError as e:
        obligations.append(Obligation("G:*", "ground", "overlay", "undecided", {"reason": str(e)}))
        return
    for n in expected:
        st = allres.get(n)
        if st == "ok":
            obligations.append(Obligation("G:" + n, "ground", n, "ok", {}, 0, "exhaustive on the constants of the current tree"))
        elif st == "FAILED":
            obligations.append(Obligation("G:" + n, "ground", n, "failed", {"witness": allpan.get(n, "")}, 0))
        else:
            obligations.append(Obligation("G:" + n, "ground", n, "undecided", {"reason": "test did not run"}, 0))


def run_searcher(pl, ob):
    """Native bounded search for an input on which the real function violates the postcondition
    of the failed obligation `ob`.  Returns a replay dict (reproduced=True with the witness) or a
    dict saying nothing was found."""
    s = pl["searcher"]
    files = [os.path.join(common.CONTRACTS, "search", f) for f in s["units"]]
    name = s.get("map", {}).get(ob.what)
    filt = name or s.get("default", "s_")
    try:
        res, pan, text, wall, rc, cmd = _run_tests(files, filt, "s", env={"VERIF_SEED": str(common.seed())}, timeout=s.get("timeout", 900))
    except kbackend.KaniError as e:
        return {"reproduced": False, "note": "searcher could not be built: %s" % e}
    bad = [n for n, st in res.items() if st == "FAILED"]
    if bad:
        return {"reproduced": True, "searcher": bad[0], "values": pan.get(bad[0], ""), "cmd": cmd,
                "note": "native execution of the real function violates the postcondition on this input"}
    if not res:
        return {"reproduced": False, "note": "searcher did not run (rc=%s): %s" % (rc, text[-500:]), "cmd": cmd}
    return {"reproduced": False, "note": "bounded native search (%s, %d tests) found no failing input" % (filt, len(res)), "cmd": cmd}
