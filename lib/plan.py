"""Per-property plan: which units of which back end decide the property (DESIGN.md section 5)."""

TRUSTED_BASE = [
    "Verus 0.2026.09.13 + Z3, vstd specifications of slices/iterators/integers",
    "Kani 0.68.0 / CBMC 6.11 / CaDiCaL (bit-precise, full unwinding with unwinding assertions)",
    "rustc; derived PartialEq/Eq/Hash/Clone/Copy behave structurally",
    "mechanical extraction rules of DESIGN.md 2.3 (lib/splice.py)",
]

PLAN = {}

NOT_APPLICABLE = {
    "C07": "bdd_complexity: level_complexity uses step_by + Vec::retain/sort/dedup + closures, outside Verus's subset; CBMC does not finish one level of one word in 15 min; a contract on those helpers would assume the node count (DESIGN.md 10)",
    "C14": "Sop and/or/not/simplify: Vec::retain/sort/dedup/Iterator::all with capturing closures are outside Verus's subset; Kani runs out of memory (62 GB) on Sop::and of 2x1 cubes and does not finish !Sop of one cube in 20 min (DESIGN.md 10); the cube algebra they rely on is proved under C12",
    "C16": "Display of cubes/forms is text produced through core::fmt and read back by a parser: no fmt/str reasoning in Verus. Measured with Kani (design-probes/kani/c16_*_probe.rs): Cube Display read back by a harness-side parser/evaluator is decidable for n <= 3 (150 s per triple), but Ecube, Soes, Sop and Esop Display (Vec<String> + format! + join) time out after 20 min or exhaust memory even for one or two terms over 2 variables; a claim covering one of the five types would not decide the property (DESIGN.md 10)",
    "C18": "MIP optimizers: optimality is a property of the external HiGHS solver behind FFI plus an ILP model; no contract within reach of Verus/Kani can express or decide it, and the optim-mip dependencies are not available offline (DESIGN.md 10)",
}

PLAN["C12"] = {
    "level": "proof",
    "technique": "Kani function contracts / contract triples on the real Cube methods (loop-free => complete over 2x32-bit masks), exhaustive ground evaluation of Cube::all(n<=5)",
    "level_text": "Every loop-free Cube method is proved against the property's semantic definition for all cubes over 32 variables and all assignments (complete, bit-precise); implies_lut is bounded to n<=4 and all(n) evaluated exhaustively for n<=5, as the property itself quantifies.",
    "level_note": "Trusted: Kani/CBMC/CaDiCaL, rustc. Preconditions var<32 / num_vars<32 derived from the code. Display (C16) and pos_vars/neg_vars not covered.",
    "kani_units": ["c12_cube.rs"],
    "kani_filters": {"quick": ["c12q_"], "thorough": ["c12t_"]},
    "kani_scope": {r"implies_lut_n(\d)": "bounded(n<=4: one harness per n)", r".*": "complete(all 32 variables; loop-free)"},
    "ground": {"units": ["g12_cube_all.rs"], "quick": ["g12q_"], "thorough": ["g12t_"]},
    "functions": ["Cube::value", "Cube::and", "Cube::implies", "Cube::intersects", "Cube::one", "Cube::zero", "Cube::nth_var",
                  "Cube::nth_var_inv", "Cube::minterm", "Cube::from_vars", "Cube::from_mask", "Cube::is_zero", "Cube::is_one",
                  "Cube::is_constant", "Cube::num_lits", "Cube::num_gates", "Cube::implies_lut", "Cube::all", "BitAnd for Cube (4 impls)"],
    "assumptions": [
        "preconditions derived from the code: variable index < 32 for nth_var/nth_var_inv/from_vars, num_vars < 32 for minterm (1 << 32 overflows u32)",
        "implies_lut is bounded to n <= 4 (the property's own range); Cube::all(n) is evaluated exhaustively for n <= 5",
        "pos_vars/neg_vars and Display are not covered (Display is property C16, not applicable)",
    ],
    "scope_note": "loop-free methods: complete over both 32-bit masks and every assignment; implies_lut bounded n<=4; all(n) exhaustive n<=5",
}


_KERNEL_FUNCS = ["table_size", "num_vars_mask", "fill_one", "fill_zero", "not_inplace", "get_bit", "set_bit", "unset_bit",
                 "flip_inplace", "swap_inplace", "swap_adjacent_inplace", "cofactor0_inplace", "cofactor1_inplace",
                 "from_cofactors_inplace", "next_inplace", "fill_random", "hex_str_size", "and_inplace", "or_inplace", "xor_inplace"]

_VERUS_ASSUMED = [
    "Verus proofs are for 64-bit targets (global size_of usize == 8) and require num_vars < 64",
    "vstd's prophetic iterator model for `for t in table` over &mut [u64]; assume_specification of <&mut [T]>::into_iter, <[T]>::swap, core::cmp::min/max, core::panicking::assert_failed (requires false)",
]

PLAN["C03"] = {
    "level": "proof",
    "technique": "Verus contracts on the real kernels extracted from src/operations.rs each run (all n < 64, all tables, all indices) + Kani contract triples on the real Lut/LutN wrappers per size and index with an independent per-assignment oracle",
    "level_text": "flip/swap/cofactor0/1/from_cofactors kernels are proved for every table length and every index by Verus (word-level postconditions and, by machine-checked bridge lemmas, the assignment-level statements g(x) = f(x with bits moved) for flip, swap, cofactors and from_cofactors; lemma_shannon gives the round trip); the wrappers of both types are proved per size (LutN 1..12, Lut 1..12) and per index (pair) by fully unwound Kani triples against `g(x) = f(x with bits moved)` evaluated independently, including in-place/copy agreement, operand preservation and the Shannon round trip.",
    "level_note": "Trusted: Verus/Z3/vstd, Kani/CBMC, rustc, extraction rules of DESIGN 2.3. The assignment-level statements of all five kernels (including swap, via lemma_swap_bits over the three storage regimes) are machine-checked by Verus for all n; Kani triples fix size and index per harness (complete for that size/index).",
    "verus_units": ["kernels"],
    "kani_units": ["spec_ops.rs", "c03_transforms.rs"],
    "kani_filters": {"quick": ["c03q_"], "thorough": ["c03t_"]},
    "kani_scope": {r"_s_": "complete(LutN, fixed N and index: all tables, all assignments)", r"_d_": "complete(Lut, fixed n and index: all tables, all assignments)"},
    "harness_timeout": {"quick": 600, "thorough": 3600},
    "functions": ["operations::" + f for f in ["flip_inplace", "swap_inplace", "swap_adjacent_inplace", "cofactor0_inplace", "cofactor1_inplace", "from_cofactors_inplace", "table_size", "num_vars_mask"]]
                 + ["Lut::/StaticLut::{flip, flip_inplace, swap, swap_inplace, swap_adjacent, swap_adjacent_inplace, cofactors, from_cofactors, from_blocks, blocks}"],
    "twins": {
        "flip_inplace": {"filters": ["c03q_s_flip", "c03t_s_flip", "c03q_d_flip", "c03t_d_flip"], "complete": True},
        "swap_inplace": {"filters": ["c03q_s_swap_", "c03t_s_swap_", "c03q_d_swap_", "c03t_d_swap_"], "complete": True},
        "swap_adjacent_inplace": {"filters": ["c03q_s_swapadj", "c03t_s_swapadj", "c03q_d_swapadj", "c03t_d_swapadj"], "complete": True},
        "cofactor0_inplace": {"filters": ["c03q_s_cof_", "c03t_s_cof_", "c03q_d_cof_", "c03t_d_cof_"], "complete": True},
        "cofactor1_inplace": {"filters": ["c03q_s_cof_", "c03t_s_cof_", "c03q_d_cof_", "c03t_d_cof_"], "complete": True},
        "from_cofactors_inplace": {"filters": ["c03q_s_fromcof", "c03t_s_fromcof", "c03q_d_fromcof", "c03t_d_fromcof"], "complete": True},
    },
    "assumptions": _VERUS_ASSUMED + [
        "Kani triples: one harness per (type, size, index/pair); sizes LutN 1..12 and Lut 1..12 - Lut n = 13, 14 of the property's range are NOT covered by Kani (one 256-word triple takes 4-9 min and up to 16 GB, ~300 of them; measured): for those sizes the statement rests on the Verus kernel proofs (all n) and on the wrappers forwarding (n, table, indices) unchanged; both argument orders of swap covered for n <= 4, one order per unordered pair above (the kernel normalises with max/min, proved by Verus for all orders)",
        "a failed Verus obligation whose complete Kani twin set passes over the property's whole range is reported as `proof lost`, not as a violation (DESIGN 1)",
    ],
    "scope_note": "Verus: unbounded in n (< 64), table length and index. Kani: complete per size/index for LutN 1..12 and Lut 1..12.",
}


PLAN["C01"] = {
    "level": "proof",
    "technique": "Verus contracts on the real not_inplace/and_inplace/or_inplace/xor_inplace/num_vars_mask (all n < 64, all table lengths; word- and assignment-level lemmas) + Kani contract triples on the same kernels per length and on every syntactic operator form of Lut/LutN per size, against the Boolean operation on words and on a symbolic assignment",
    "level_text": "NOT, AND, OR, XOR kernels are proved for every table length by Verus (word-level postconditions; lemma_logic_bits / lemma_not_bits give the assignment-level statement, lemma_logic_wf the invariant); the same kernels are also proved per table length 1..256 by Kani, and all 28 syntactic forms (named, in-place, 4 operator-trait forms, 2 compound-assignment forms; NOT: 4 forms) are proved per type LutN N=0..12 and Lut n=0..12 (NOT to 14) by fully unwound Kani triples: forms agree, result == word-wise and assignment-wise Boolean operation, operands unchanged, result well-formed with n variables.",
    "level_note": "Trusted: Verus/Z3/vstd, Kani/CBMC, rustc, extraction rules of DESIGN 2.3 (rule 6: `*t1 OP= t2` with t2: &u64 is rewritten to `*t1 OP= *t2`, i.e. std's forwarding impl `OPAssign<&u64> for u64` is trusted).",
    "verus_units": ["kernels", "logic"],
    "kani_units": ["spec_ops.rs", "c01_logic.rs"],
    "kani_filters": {"quick": ["c01q_"], "thorough": ["c01t_"]},
    "kani_scope": {r"_k_": "complete(kernel, fixed table length: all contents)", r"_s_": "complete(LutN, fixed N: all tables, all assignments)", r"_d_": "complete(Lut, fixed n: all tables, all assignments)"},
    "harness_timeout": {"quick": 600, "thorough": 3600},
    "functions": ["operations::" + f for f in ["not_inplace", "and_inplace", "or_inplace", "xor_inplace", "num_vars_mask", "table_size"]]
                 + ["Lut::/StaticLut::{not, and, or, xor, not_inplace, and_inplace, or_inplace, xor_inplace}",
                    "Not/BitAnd/BitOr/BitXor/BitAndAssign/BitOrAssign/BitXorAssign impls of Lut and StaticLut (value and reference forms)"],
    "twins": {
        "not_inplace": {"filters": ["c01q_k_not", "c01t_k_not"], "complete": True},
        "and_inplace": {"filters": ["c01q_k_and", "c01t_k_and"], "complete": True},
        "or_inplace": {"filters": ["c01q_k_or", "c01t_k_or"], "complete": True},
        "xor_inplace": {"filters": ["c01q_k_xor", "c01t_k_xor"], "complete": True},
        "num_vars_mask": {"filters": ["c01q_k_not", "c01t_k_not"], "complete": True},
    },
    "assumptions": _VERUS_ASSUMED + [
        "Kani triples fix the size per harness: LutN 0..12, Lut 0..12 for the binary operator forms (13, 14: NOT forms only - one 128-word triple with all eight binary forms needs > 22 GB in CBMC, measured), kernel lengths 1..256; the kernels themselves are proved for every length by Verus and the wrappers forward (n, table) identically for every n",
        "size-mismatch behaviour of the binary forms is decided under C17",
    ],
    "scope_note": "Verus: not/and/or/xor_inplace unbounded. Kani: complete per size for LutN 0..12, Lut 0..12 (NOT to 14), kernel lengths 1,2,4,...,256.",
}


PLAN["C11"] = {
    "level": "proof",
    "technique": "Verus contracts on the real fill_one/fill_zero (all n < 64) + Kani contract triples on every named constructor of Lut/LutN per size with k and the count mask symbolic over all of usize, against a population-count oracle on a symbolic assignment",
    "level_text": "zero/one are proved for every n by Verus. nth_var, symmetric, equals, threshold, parity, majority, Default are proved per type LutN N=0..12 and Lut n=0..12 (zero/one/nth_var to 14) by fully unwound Kani triples: for every count mask c and every k in the whole usize range (so 63, 64, 65, usize::MAX are covered) and every assignment m, the value is the named function of popcount(m); no arithmetic overflow or panic; result well-formed.",
    "level_note": "Trusted: Verus/Z3/vstd, Kani/CBMC, rustc. fill_nth_var/fill_symmetric use enumerate()/count_ones, outside Verus's subset: complete per size, not unbounded.",
    "verus_units": ["kernels"],
    "kani_units": ["spec_ops.rs", "c11_constructors.rs"],
    "kani_filters": {"quick": ["c11q_"], "thorough": ["c11t_"]},
    "kani_scope": {r"_s_": "complete(LutN, fixed N: all k / count masks over usize, all assignments)", r"_d_": "complete(Lut, fixed n: all k / count masks over usize, all assignments)"},
    "harness_timeout": {"quick": 600, "thorough": 3600},
    "functions": ["operations::" + f for f in ["fill_one", "fill_zero", "fill_nth_var", "fill_symmetric", "fill_parity", "fill_equals", "fill_threshold", "fill_majority", "num_vars_mask", "table_size"]]
                 + ["Lut::/StaticLut::{zero, one, nth_var, symmetric, equals, threshold, parity, majority, default, num_vars, num_bits, num_blocks}"],
    "twins": {
        "fill_one": {"filters": ["c11q_s_const", "c11t_s_const", "c11q_d_const", "c11t_d_const"], "complete": True},
        "fill_zero": {"filters": ["c11q_s_const", "c11t_s_const", "c11q_d_const", "c11t_d_const"], "complete": True},
    },
    "assumptions": _VERUS_ASSUMED + [
        "Kani triples fix the size per harness: LutN 0..12, Lut 0..14 for zero/one/nth_var; the symmetric family (symmetric, equals, threshold, parity, majority) on Lut stops at n = 12: at n = 13, 14 one triple needs > 25 min and 8 GB (measured), so those two sizes of the property's range are NOT covered for that family",
    ],
    "scope_note": "Verus: fill_one/fill_zero unbounded. Kani: complete per size for LutN 0..12 and Lut 0..12 (constants/nth_var to 14), k and count masks over all of usize.",
}


PLAN["C08"] = {
    "level": "proof",
    "technique": "Verus contract on the real next_inplace (all n < 64: no overflow, wf preserved, carry chain) + Kani contract triples on the real cmp / next_inplace kernels per length, on Ord/PartialOrd/Eq of Lut and LutN per size, and on one step of the real iterators from an arbitrary (overlay-constructed) state, against a big-number oracle",
    "level_text": "cmp is proved per table length 1..256 to be the comparison of the tables as unsigned numbers with the last word most significant (plus antisymmetry/transitivity on symbolic pairs/triples); Ord for Lut orders by number of variables first; next_inplace is proved by Verus for all n (no overflow, well-formedness, carry chain up to the cut) and per length by Kani to be exactly the numeric successor including the words above the cut; each iterator step yields the current table and moves to its successor, and complete runs for n <= 2 (thorough: 3) enumerate 0,1,2,... and then stop.",
    "level_note": "Trusted: Verus/Z3/vstd, Kani/CBMC, rustc. The induction from 'each step is the successor' to 'the run enumerates every function once in increasing order' for n >= 3 (thorough: 4) is a paper step (DESIGN 5, C08). The hex-string order statement follows from C09's fixed-width format (paper, one line).",
    "verus_units": ["kernels"],
    "kani_units": ["spec_ops.rs", "c08_kernels.rs", "c08_lut.rs", "c08_static.rs"],
    "kani_filters": {"quick": ["c08q_"], "thorough": ["c08t_"]},
    "kani_scope": {r"_run_": "bounded(complete run of the iterator for this n only)", r"_k_": "complete(kernel, fixed length: all contents)", r"_s_": "complete(LutN, fixed N: all tables)", r"_d_": "complete(Lut, fixed n: all tables)"},
    "harness_timeout": {"quick": 600, "thorough": 3600},
    "functions": ["operations::cmp", "operations::next_inplace", "Ord/PartialOrd/PartialEq for Lut", "Ord/PartialOrd/PartialEq for StaticLut",
                  "LutIterator::next", "StaticLutIterator::next", "Lut::all_functions", "StaticLut::all_functions"],
    "twins": {
        "next_inplace": {"filters": ["c08q_k_next", "c08t_k_next"], "complete": True},
    },
    "assumptions": _VERUS_ASSUMED + [
        "paper step: induction over the successor contract gives the full enumeration for n beyond the complete runs (n <= 2 quick, n <= 3 thorough)",
        "hex-string order agreement rests on C09 (fixed width, most significant digit first)",
    ],
    "scope_note": "Verus: next_inplace unbounded (without the frame above the cut). Kani: complete per length 1..256 (cmp, next), per size LutN 0..12 / Lut 0..14.",
}


PLAN["C17"] = {
    "level": "proof",
    "technique": "Kani contract triples {invalid argument} call {no execution returns; every failing check is a profile-independent assert/bounds check} on every index-, assignment-, operand- and block-taking public method of Lut and LutN per size, with the invalid argument symbolic over the whole usize range; Verus verification of the kernels in both profile variants (debug_assert lines kept / deleted) for the valid-argument half",
    "level_text": "For every listed method and size n = 0..8 of both types, Kani proves that with ANY out-of-range index / assignment / mismatched operand / wrong block length (symbolic over all of usize) no execution returns from the call, and that the only failing checks are always-on assert!/assert_eq!/slice checks (a failing debug_assert or overflow check, which exist only in debug builds, fails the obligation). For valid arguments, Verus proves each kernel free of overflow and assertion failure against the same contract in the debug variant (debug_assert lines are obligations) and the release variant (lines deleted), and the Kani triples of C01/C03/C08/C11 report no overflow.",
    "level_note": "Trusted: Kani/CBMC, Verus/Z3/vstd, rustc. Reduction (paper, checked syntactically each run): the only profile-dependent constructs in the crate are debug_assert* and arithmetic-overflow checks. Kani follows a failing debug_assert no further, so a later always-on check that would also stop a release build is not credited.",
    "verus_units": ["kernels", "logic"],
    "kani_units": ["spec_ops.rs", "c17_panics.rs", "c03_transforms.rs", "c11_constructors.rs", "c08_kernels.rs"],
    # the valid-argument half: the fully unwound triples of C03/C11/C08 on valid arguments must show no failed check at all
    # (Kani checks arithmetic overflow and every assert on each path), here for the fixed-size type and the kernels
    "kani_filters": {"quick": ["c17q_", "c03q_s_", "c11q_s_", "c08q_k_next"], "thorough": ["c17t_", "c03q_d_", "c11q_d_", "c08t_k_next"]},
    "panic_re": r"c17[qt]_p_",
    "kani_scope": {r"c17._p_s_": "complete(LutN, fixed N: all tables, invalid argument over all of usize)", r"c17._p_d_": "complete(Lut, fixed n: all tables, invalid argument over all of usize)",
                   r"c03|c11|c08": "complete(valid arguments, fixed size: no overflow / assertion failure on any path)"},
    "harness_timeout": {"quick": 600, "thorough": 3600},
    "profile_scan": True,
    "functions": ["Lut::/StaticLut::{value, get_bit, set_bit, unset_bit, set_value, nth_var, flip, flip_inplace, swap, swap_inplace, swap_adjacent, swap_adjacent_inplace, cofactors, from_cofactors, top_decomposition, is_pos_unate, is_neg_unate, from_blocks}",
                  "Lut::{and, or, xor, and_inplace, or_inplace, xor_inplace, bdd_complexity} and the 18 binary operator-trait forms with operands of different sizes",
                  "decomposition::input_property_helper (assert! guards)", "check_var / check_lut / check_bit"]
                 + ["operations::" + f + " (both profile variants, Verus)" for f in _KERNEL_FUNCS],
    "assumptions": _VERUS_ASSUMED + [
        "sizes n = 0..8 (the property's range); mismatched-size pairs: (0,1) (3,2) (5,6) (6,7) (7,8) (8,4) (2,7)",
        "the valid-argument half for wrappers relies on the triples of C01/C03/C06/C08/C11 (Kani checks overflow on every path they explore)",
    ],
    "scope_note": "Kani: complete per size n = 0..8 and per method; invalid argument over all of usize. Verus: kernels in debug and release variants, unbounded.",
}


PLAN["C19"] = {
    "level": "proof",
    "technique": "Verus contract on the real fill_random with the generator call replaced by its weakest contract (arbitrary u64): wf for all n; Kani contract triples on Lut::random / LutN::random per size against a contract-model of the rand crate (symbolic output sequence, call counter): every word is a fresh generator output masked to the table size",
    "level_text": "Well-formedness of random() is proved for every n and every generator behaviour by Verus. Transparency is proved per size LutN 0..12 and Lut 0..12 by Kani on the real code linked against a contract-model of rand: word w of the d-th draw equals the (d*T+w)-th generator output masked with the size mask, exactly T generator calls per draw, no state kept between calls. Non-degeneracy and draw independence then reduce to those of rand::thread_rng, which is assumed (statistical property outside the reach of contracts).",
    "level_note": "Assumed, not checked: rand 0.8 thread_rng() yields independent uniform u64 per call and per thread. Trusted: Verus/Z3/vstd, Kani/CBMC, rustc; the model crate replaces rand only inside the overlay.",
    "verus_units": ["kernels"],
    "kani_units": ["spec_ops.rs", "c19_random.rs"],
    "kani_filters": {"quick": ["c19q_"], "thorough": ["c19t_"]},
    "kani_features": "rand",
    "overlay_dirs": [("models/rand", "verif_models/rand")],
    "overlay_rewrites": [("Cargo.toml", 'rand = { version = "0.8.5", optional = true }', 'rand = { path = "verif_models/rand", optional = true }')],
    "kani_scope": {r"_s_": "complete(LutN, fixed N: all generator output sequences)", r"_d_": "complete(Lut, fixed n: all generator output sequences)"},
    "harness_timeout": {"quick": 600, "thorough": 3600},
    "functions": ["operations::fill_random", "operations::num_vars_mask", "Lut::random", "StaticLut::random"],
    "twins": {"fill_random": {"filters": ["c19q_", "c19t_"], "complete": True}},
    "assumptions": _VERUS_ASSUMED + [
        "contract-model of rand (contracts/models/rand): thread_rng().next_u64() returns successive elements of an arbitrary sequence; the real generator's uniformity/independence per call and per thread is ASSUMED",
        "Verus extraction rule 4: `rand::thread_rng().next_u64()` is replaced by an external_body function returning an arbitrary u64",
    ],
    "scope_note": "Verus: fill_random wf unbounded. Kani: complete per size LutN 0..12, Lut 0..12 against the rand contract-model.",
}


PLAN["C02"] = {
    "level": "proof",
    "technique": "induction over the public API on the representation invariant wf: Verus contracts on the real kernels (wf established by fill_one/zero/random, preserved by not/set_bit/unset_bit/flip/swap/swap_adjacent/cofactor0/1/from_cofactors/next for all n < 64) + machine-checked extensionality lemma; Kani contract triples per size for the constructors, logic operators, wrappers and conversions that Verus cannot take, and for == / cmp against an explicit distinguishing assignment",
    "level_text": "wf (block count = max(1,2^n/64), no bit >= 2^n) is proved by Verus to be established/preserved by every slice kernel it can take, for every n < 64 and every in-range argument, and lemma_ext proves that two wf tables agreeing on every assignment are identical word for word. Kani proves per size (all sizes 0..6 where the invariant has content, with symbolic indices; multi-word sizes to 12/14) that every constructor establishes wf over its whole argument domain, that the logic operators, single-bit mutators, transforms, iterator items and conversions preserve it, and that ==, cmp==Equal and equality of all values coincide (a distinguishing assignment is computed when the blocks differ).",
    "level_note": "Trusted: derived PartialEq/Eq/Hash hash and compare exactly the stored (num_vars, words); Verus/Z3/vstd, Kani/CBMC, rustc. The parser (from_hex_string) is covered under C09 (bounded); canonization outputs are copies of tables produced by the kernels above (frame of the *_ind loops, C04).",
    "verus_units": ["kernels", "logic", "theory"],
    "kani_units": ["spec_ops.rs", "c02_repr.rs", "c09_text.rs", "c08_lut.rs", "c10_agree.rs"],
    "kani_filters": {"quick": ["c02q_", "c09q_parse_n", "c08q_d_orddiff", "c10q_convmm"], "thorough": ["c02t_", "c08t_d_orddiff", "c10t_convmm"]},
    "kani_scope": {r"c09q_parse": "bounded(parser: this n and string length, every ASCII string)", r"orddiff": "complete(two Luts of these two different sizes: all contents; never Equal, never ==)",
                   r"convmm": "complete(TryFrom<Lut> from a Lut of this other size is refused: all contents)", r"_s_|conv": "complete(LutN, fixed N: all tables, all in-range arguments)", r"_d_": "complete(Lut, fixed n: all tables, all in-range arguments)"},
    "harness_timeout": {"quick": 600, "thorough": 3600},
    "functions": ["operations::" + f for f in _KERNEL_FUNCS] + ["operations::fill_hex (bounded)", "lemma_ext (extensionality)",
                  "Lut::/StaticLut::{every constructor, from_blocks, blocks, value, get_bit, set_bit, unset_bit, set_value, logic operators, flip, swap, swap_adjacent, cofactors, from_cofactors, all_functions}",
                  "From<u8/u16/u32/u64> for Lut3..6, From<StaticLut> for Lut, TryFrom<Lut> for StaticLut", "PartialEq / Ord of both types"],
    "assumptions": _VERUS_ASSUMED + [
        "derived PartialEq/Eq/Hash/Clone/Copy are structural (trusted)",
        "histories: the induction step is per operation; closing it over arbitrary call sequences is the standard invariant argument (every public entry point is covered by one obligation; from_blocks requires wf of its argument, as the property states)",
        "from_hex_string results: fill_hex Ok => wf is part of the C09 parse triples (bounded: n <= 7, ASCII strings of length width-1..width+1), run here as well",
    ],
    "scope_note": "Verus: kernels unbounded. Kani: complete per size; symbolic indices for n <= 8.",
}


PLAN["C13"] = {
    "level": "proof",
    "technique": "Kani function contract / contract triples on the real Ecube methods (loop-free => complete over all 32 variables), bounded contract triples on Soes (<= 4 terms, n <= 4), exhaustive ground evaluation of Ecube::all(n <= 5)",
    "level_text": "Every Ecube method (value, ^ and ! in all trait forms, equality, predicates, literal/gate counts, literals, from_vars) is proved against the parity definition for all terms over 32 variables and all assignments (complete, bit-precise; distinct terms are separated by an explicit assignment). Soes value / | (four forms) / conversion to Lut / is_zero / is_one are proved for every Soes of up to 4 terms over up to 4 variables (the property's own range) - bounded. Ecube::all(n) is evaluated exhaustively for n <= 5.",
    "level_note": "Trusted: Kani/CBMC, rustc. Soes triples are bounded in the number of terms and variables (stated per harness); implies_lut bounded n <= 4. Display is property C16 (not applicable).",
    "kani_units": ["spec_ops.rs", "c13_ecube.rs", "c13_soes.rs"],
    "kani_filters": {"quick": ["c13q_"], "thorough": ["c13t_"]},
    "kani_scope": {r"soes_lut_k\d_n[78]": "bounded(Soes -> Lut: one or two arbitrary terms over 7 / 8 variables - multi-word tables)", r"soes_\w+_k(\d)": "bounded(Soes: number of terms and variables fixed per harness, <= 4 terms, n <= 5)", r"implies_lut_n(\d)": "bounded(n <= 4: one harness per n)",
                   r"from_vars": "bounded(<= 3 listed variables)", r".*": "complete(all 32 variables; loop-free)"},
    "ground": {"units": ["g13_ecube_all.rs"], "quick": ["g13q_"], "thorough": ["g13t_"]},
    "functions": ["Ecube::value", "Ecube::one", "Ecube::zero", "Ecube::is_zero", "Ecube::is_one", "Ecube::nth_var", "Ecube::nth_var_inv", "Ecube::from_vars",
                  "Ecube::num_lits", "Ecube::num_gates", "Ecube::implies_lut", "Ecube::all", "BitXor for Ecube (4 impls)", "Not for Ecube (2 impls)",
                  "Soes::value", "Soes::or + BitOr (4 impls)", "Soes::zero/one/nth_var/nth_var_inv", "Soes::is_zero", "Soes::is_one", "From<&Soes> for Lut"],
    "assumptions": [
        "precondition derived from the code: variable index < 32 for nth_var/nth_var_inv/from_vars",
        "Soes: bounded to <= 4 terms over <= 4 (5) variables, plus the conversion to Lut with one or two terms over 7 and 8 variables (multi-word tables); terms are built directly in an appended child module (from_cubes' scan is not exercised)",
        "derived PartialEq on Ecube/Soes is structural (trusted)",
    ],
    "scope_note": "Ecube loop-free methods: complete over 32 variables. Soes: bounded (<= 4 terms, n <= 4). Ecube::all exhaustive n <= 5.",
}


PLAN["C06"] = {
    "level": "proof",
    "technique": "Kani contract triples on the real top_decomposition / is_pos_unate / is_neg_unate of Lut and LutN per size (symbolic variable for n <= 8, one harness per variable above), against the property's decision list evaluated on cofactor tables built by an independent word oracle that is itself tied to the real cofactors()",
    "level_text": "For every size LutN 1..12 and Lut 1..12, every well-formed table and every variable v < n (both the in-word and the cross-word path), the returned class equals the property's decision list (Independent iff c0=c1; else Identity/Negation; else And/Or/Le/Lt; else Xor iff c0 = not c1; else None) and the unateness predicates equal c0<=c1 / c1<=c0 pointwise; fully unwound, complete per size.",
    "level_note": "Trusted: Kani/CBMC, rustc. decomposition.rs is outside Verus's subset (closure parameters, `ret &= bool`), so there is no unbounded proof: complete per size only. The cofactor oracle is tied to the real cofactors() per size (and through C03 to the Verus kernel contracts).",
    "kani_units": ["spec_ops.rs", "c06_decomposition.rs"],
    "kani_filters": {"quick": ["c06q_"], "thorough": ["c06t_"]},
    "kani_scope": {r"_s_": "complete(LutN, fixed N: all tables; variable symbolic for N <= 8, fixed per harness above)", r"_d_": "complete(Lut, fixed n: all tables; variable symbolic for n <= 8, fixed per harness above)"},
    "harness_timeout": {"quick": 900, "thorough": 3600},
    "functions": ["decomposition::input_property_helper", "decomposition::input_independent/and/or/nand/nor/xor/pos_unate/neg_unate", "decomposition::top_decomposition",
                  "Lut::/StaticLut::{top_decomposition, is_pos_unate, is_neg_unate, cofactors}"],
    "assumptions": [
        "sizes LutN 1..12 and Lut 1..12 (the property's range), one harness per size (and per variable for n >= 9)",
        "derived PartialEq on DecompositionType is structural (trusted)",
    ],
    "scope_note": "Kani: complete per size 1..12 for both types.",
}


PLAN["C10"] = {
    "level": "proof",
    "technique": "Kani contract triples per exported size N = 0..12: the same operation applied to LutN and to Lut built from the same symbolic well-formed blocks returns the same blocks/components (forwarding faithfulness), conversions are inverse, TryFrom fails exactly on a different variable count, integer conversions are bit-exact; heavy callees compared at reduced sizes (bounded)",
    "level_text": "For every alias Lut0..Lut12: Lut::from(LutN) and LutN::try_from(Lut) preserve the blocks and are inverse, try_from fails for a Lut of another size, and constructors (all arguments symbolic), value/get_bit/set_bit/unset_bit/set_value, the logic operators, cmp/==, flip/swap/swap_adjacent/cofactors/from_cofactors/top_decomposition/unateness (symbolic indices, N <= 8) and the first items of all_functions agree between the two types; u8/u16/u32/u64 <-> Lut3..Lut6 are bit-exact bijections with bit m = f(m). Complete per size. Canonization agreement is bounded to N <= 2 (3 in thorough).",
    "level_note": "Trusted: Kani/CBMC, rustc. For N >= 9 the per-index agreement of the transforms/decomposition follows from C03/C06 (both types are proved equal to the same specification for every index). Strings (to_hex_string/Display/from_hex_string) are compared under C09's bounded triples; bdd_complexity is not compared (C07 not applicable).",
    "kani_units": ["spec_ops.rs", "c10_agree.rs"],
    "kani_filters": {"quick": ["c10q_"], "thorough": ["c10t_"]},
    "kani_scope": {r"canon": "bounded(canonization agreement at this tiny size only)", r".*": "complete(fixed N: all tables, all in-range arguments)"},
    "harness_timeout": {"quick": 900, "thorough": 3600},
    "functions": ["From<StaticLut<N,T>> for Lut", "TryFrom<Lut> for StaticLut<N,T>", "From<u8/u16/u32/u64> for Lut3..6 and back",
                  "every public method common to Lut and StaticLut except strings and bdd_complexity (see level_note)"],
    "assumptions": [
        "canonization agreement bounded to N <= 2 (quick) / 3 (thorough); both types call the same canonization functions with (N, table, perm)",
        "string forms: C09; bdd_complexity: not compared",
        "transform/decomposition agreement for N >= 9 rests on C03/C06 per-index triples of both types; constructor agreement for N = 11, 12 rests on C11 (each constructor of each type equals the same population-count oracle)",
    ],
    "scope_note": "Kani: complete per size N = 0..12; symbolic indices for N <= 8.",
}


_CANON_FUNCS = ["canonization::" + f for f in ["p_canonization_ind", "n_canonization_ind", "npn_canonization_ind", "p_canonization_res", "n_canonization_res",
                "npn_canonization_res", "p_canonization", "n_canonization", "npn_canonization", "FLIPS", "SWAPS", "generate_swaps (n = 7, 8, ground)", "generate_gray_flips (n = 7, 8, ground)"]]
_CANON_ASSUMED = _VERUS_ASSUMED + [
    "assumed in the canon unit, discharged elsewhere: contracts of swap_adjacent_inplace / flip_inplace / not_inplace (Verus unit `kernels`, same run), cmp == lex_lt (Kani triples c08*_k_cmp per length, C08)",
    "ground lemmas ground_seq_facts / ground_{p,n,npn}_closed are external_body in Verus and are decided by the ground evaluator on the constants of the current tree for n = 0..8 (obligations G:g04q_*); the evaluator is a transcription of the spec functions p_pi/n_pi/npn_pi/perm_at/n_mask/npn_mask (trusted transcription)",
    "generate_swaps / generate_gray_flips are not verified as code: their outputs for n = 7, 8 are ground-evaluated; canonization for n >= 9 is outside the property's range and not covered (dispatchers require n <= 8)",
    "paper step (DESIGN 5, C04.6): the walk visits every group element (G:g04*_cover) and each table is determined by its bits (lemma_ext, machine-checked), hence {walk(k)} is the orbit of the input and the running minimum (machine-checked) is the orbit minimum; idempotence and 'same representative iff equivalent' follow from the orbit minimum being a class invariant",
    "assume_specification of <[T]>::clone_from_slice and Ordering::is_lt (one-line std contracts)",
]

PLAN["C04"] = {
    "level": "proof",
    "technique": "Verus contracts on the real canonization loops, decoders and dispatchers extracted from src/canonization.rs (generic in the flip/swap sequences: table == walk spec, running minimum in the library order, no panic/overflow) + machine-checked composition lemmas (walk(k) reads the input through pi(k,.), closure => walk(L) == input) + exhaustive ground evaluation of the real FLIPS/SWAPS tables and generators for n <= 8 (ranges, lengths, closure, coverage of the whole group) + Kani end-to-end cross-check at n <= 2 against an orbit enumerated by the harness",
    "level_text": "For every n <= 8 and every well-formed table, Verus proves that p/n/npn_canonization terminate without panic or overflow and return a table that is (a) one of the tables of the walk defined by the group actions swap_adjacent/flip/not applied along the real sequences and (b) not above any table of that walk in the library's order; the sequences themselves (hard-coded for n <= 6, generated for n = 7, 8) are shown by exhaustive ground evaluation to have entries in range, the right lengths, to be closed and to reach every element of the permutation / complementation / combined group exactly once. The orbit-minimum conclusion combines these by a short paper step; it is cross-checked end to end by Kani for every function of n <= 2 variables (3 in thorough) on both types.",
    "level_note": "Trusted: Verus/Z3/vstd, rustc, extraction rules, the ground evaluator's transcription of the spec functions. The last composition step (orbit = set of visited tables) is on paper. n >= 9 is not covered.",
    "verus_units": ["canon"],
    "kani_units": ["spec_ops.rs", "c04_e2e.rs"],
    "kani_filters": {"quick": ["c04q_"], "thorough": ["c04t_"]},
    "kani_scope": {r".*": "bounded(every function of this tiny n only: end-to-end cross-check of the composition step)"},
    "harness_timeout": {"quick": 900, "thorough": 7200},
    "ground": {"units": ["g04_canon.rs"], "quick": ["g04q_"], "thorough": ["g04t_"]},
    "searcher": {"units": ["s04_canon.rs"], "default": "s04_", "timeout": 1800},
    "kani_escalation": ["c04t_e2e_s_p_n3", "c04t_e2e_s_n_n3", "c04t_e2e_s_npn_n3"],
    "functions": _CANON_FUNCS,
    "assumptions": _CANON_ASSUMED,
    "scope_note": "Verus: unbounded in the sequences and the table contents, n <= 8 in the dispatchers. Ground: exhaustive on the real sequences n = 0..8. Kani: every function of n <= 2 (3 thorough).",
}

PLAN["C05"] = {
    "level": "proof",
    "technique": "Verus contracts on the real canonization loops (index link: the returned step index names the step at which the representative was seen, including the already-canonical case via the closed-walk lemma), decoders (result == perm_at / mask spec of the sequences at that step) and dispatchers + exhaustive ground evaluation, for the real sequences n <= 8 and EVERY step, that the decoded (perm, mask) denotes exactly the composed map of that step under the property's formula + Kani end-to-end certificate check at n <= 2",
    "level_text": "For every n <= 8 and every well-formed table, Verus proves that the representative returned is the table of a step s of the walk and that the returned permutation / mask are the decoder specifications perm_at / n_mask / npn_mask evaluated at that same step (also when the input is already canonical: the closed-walk lemma identifies the last step with the input); perm is a permutation of 0..n and mask < 2^(n+1) by the ground facts. Exhaustive ground evaluation shows, for every step of every real sequence (n <= 8) and every assignment y, that x[perm[i]] = y[i] xor mask[i] is the composed index map of that step and mask[n] its output polarity - the property's formula. Kani cross-checks the certificate end to end for every function of n <= 2 (3 thorough).",
    "level_note": "Trusted as for C04. The identification 'table of step s == input acted on by the composed map of step s' is machine-checked (lemma_*_walk_pi); combining it with the ground certificate facts is a one-line paper step.",
    "verus_units": ["canon"],
    "kani_units": ["spec_ops.rs", "c04_e2e.rs"],
    "kani_filters": {"quick": ["c04q_"], "thorough": ["c04t_"]},
    "kani_scope": {r".*": "bounded(every function of this tiny n only: end-to-end certificate check)"},
    "harness_timeout": {"quick": 900, "thorough": 7200},
    "ground": {"units": ["g04_canon.rs"], "quick": ["g04q_seq", "g04q_p_closed", "g04q_n_closed", "g04q_npn_closed", "g05q_"], "thorough": ["g05t_"]},
    "searcher": {"units": ["s04_canon.rs"], "default": "s04_", "timeout": 1800},
    "kani_escalation": ["c04t_e2e_s_p_n3", "c04t_e2e_s_n_n3", "c04t_e2e_s_npn_n3"],
    "functions": _CANON_FUNCS,
    "assumptions": _CANON_ASSUMED,
    "scope_note": "Verus: unbounded in the sequences and table contents, n <= 8. Ground: every step of the real sequences n = 0..8. Kani: every function of n <= 2 (3 thorough).",
}


PLAN["C09"] = {
    "level": "model_checking",
    "technique": "Kani function contract on hex_str_size (all n) + BOUNDED Kani contract triples on the real to_hex / to_bin (one-word tables, n <= 3/4, real core::fmt) and on the real fill_hex with the real u64::from_str_radix (every ASCII string of length width-1, width, width+1 for n <= 6, every 32-character ASCII string for n = 7, plus concrete non-ASCII strings)",
    "level_text": "Bounded: hex_str_size is proved for all n. Printing: for every well-formed one-word table of n <= 3 (hex; 4-5 in thorough) / n <= 2 (binary; 3 in thorough) variables the text has exactly the fixed width and digit i is the lower-case hex (binary) digit of the corresponding nibble (bit), most significant first. Parsing: for n = 0..6 and EVERY ASCII string of length width-1, width and width+1 (n = 7: every 32-character ASCII string, two words), fill_hex never panics, returns Ok only for exactly-width hex-digit strings whose value fits in 2^n bits, then stores exactly the denoted value (first 16 digits = most significant word) in a well-formed table, accepts every such lower-case string, and rejects everything else (signs, spaces, 'g', 'x', too-large digits); non-ASCII text is rejected on concrete multi-byte samples. The print/parse round trip follows from the two contracts.",
    "level_note": "BOUNDED, never counted as proved beyond the stated sizes: printing is limited by the cost of core::fmt in CBMC (one 16-digit word does not terminate); multi-word PRINT order and n >= 8 parsing are not covered; the Display/LowerHex/Binary wrappers are covered modularly (callee stubbed). Non-ASCII rejection is checked on six concrete strings only (symbolic UTF-8 validation costs 450 s per harness).",
    "verus_units": ["kernels"],
    "kani_units": ["spec_ops.rs", "c09_text.rs"],
    "kani_filters": {"quick": ["c09q_"], "thorough": ["c09t_"]},
    "kani_scope": {r"hex_str_size": "complete(all n: loop-free function contract)", r"wrap_|display_": "complete(this n: wrapper text around the callee's text; callee stubbed by its marker contract)", r"prefix_": "complete(this n: the text starts with Lut<n in decimal>( whatever produces the digits; early-stopping sink)", r"print_(hex|bin)_n(\d)": "bounded(one-word table of this n; all contents)",
                   r"parse_non_ascii": "bounded(six concrete non-ASCII strings)", r"parse_n7": "bounded(n = 7: every 32-character ASCII string)",
                   r"parse_n(\d)_len(\d+)": "bounded(this n and this string length: every ASCII string)"},
    "harness_timeout": {"quick": 900, "thorough": 3600},
    "functions": ["operations::hex_str_size", "operations::to_hex", "operations::to_bin", "operations::fill_hex (with core's u64::from_str_radix, str::is_ascii, u8::is_ascii_hexdigit)"],
    "assumptions": [
        "bounds: print n <= 3 (hex) / n <= 2 (bin) in quick, 5 / 3 in thorough, one word; parse n <= 7, lengths width-1..width+1, ASCII bytes symbolic",
        "fmt_hex / fmt_bin and Display/LowerHex/Binary of both types are verified MODULARLY (Kani stub of to_hex/to_bin by a marker text): output == \"Lut\" + n in decimal + \"(\" + callee text + \")\" for n = 0..12 samples",
        "not covered: printing of multi-word tables (word order inside to_hex/to_bin), to_hex_string/to_bin_string/from_hex_string forwarding of Lut/StaticLut (one-line forwards of (n, table)), strings of other lengths (rejected by the length test on the path that is covered)",
        "round trip = composition of the print and parse contracts (paper, two lines)",
    ],
    "scope_note": "bounded: see per-harness scopes",
}


PLAN["C15"] = {
    "level": "model_checking",
    "technique": "BOUNDED Kani contract triples on the real Esop::from(&Lut) for every function of n <= 2 variables (n = 3 in thorough, function by function) against the algebraic-normal-form coefficients computed by the harness, and on Esop value / ^ (four forms) / ! / conversion to Lut / is_zero / is_one with exactly K symbolic cubes over all 32 variables",
    "level_text": "Bounded: for every function of n <= 2 variables (3 in thorough) the converted Esop contains the all-positive cube of variable set S exactly a_S times (a_S = XOR of f over the assignments inside S) and nothing else, and converts back to the function; value is the parity of the cube values, ^ and ! denote XOR and complement, Lut::from tabulates value, is_zero/is_one imply the constants, for every Esop of exactly K <= 3 (4-5 thorough) arbitrary cubes.",
    "level_note": "BOUNDED (n <= 2/3 for the conversion; cube counts fixed per harness). The Moebius sweep for larger n is not covered: CBMC runs out of memory on a symbolic 3-variable table, and Lut (Box<[u64]>) + Vec<Cube> are outside what the Verus extraction supports.",
    "kani_units": ["spec_ops.rs", "c12_cube.rs", "c15_esop.rs"],
    "kani_filters": {"quick": ["c15q_"], "thorough": ["c15t_"]},
    "kani_scope": {r"from_lut_n(\d)": "bounded(every function of this n; n = 2, 3: one concrete table at a time)", r"_k(\d)": "bounded(exactly this many arbitrary cubes, this n)", r"constants": "complete(loop-free)"},
    "harness_timeout": {"quick": 900, "thorough": 3600},
    "functions": ["From<&Lut> for Esop", "From<&Esop> for Lut", "Esop::value", "Esop::xor + BitXor (4 impls)", "Not for Esop (2 impls)", "Esop::is_zero", "Esop::is_one", "Esop::zero/one/nth_var/nth_var_inv"],
    "assumptions": [
        "bounds: conversion of every function n <= 2 (quick), 3 (thorough), and of the positive monomials at n = 7 (two-word tables; 48 of the 128 in quick, all in thorough); operators with exactly K cubes, K <= 3 (quick), 5 (thorough), n <= 4",
        "equal functions give equal Esops: follows from the coefficient-exact form (cube order = increasing variable-set index, by the sweep order) for the sizes covered",
        "derived PartialEq on Cube is structural (trusted); cube semantics: C12",
    ],
    "scope_note": "bounded: see per-harness scopes",
}



# parallelism per tier (memory: the n >= 11 triples need 5-15 GB each; 62 GB machine)
PLAN["C01"]["kani_jobs"] = {"quick": 8, "thorough": 5}
PLAN["C02"]["kani_jobs"] = {"quick": 12, "thorough": 6}
PLAN["C03"]["kani_jobs"] = {"quick": 12, "thorough": 6}
PLAN["C06"]["kani_jobs"] = {"quick": 10, "thorough": 4}     # n = 12 in-word variables: 10 GB per triple
PLAN["C08"]["kani_jobs"] = {"quick": 12, "thorough": 6}
PLAN["C10"]["kani_jobs"] = {"quick": 10, "thorough": 5}
PLAN["C11"]["kani_jobs"] = {"quick": 8, "thorough": 3}
PLAN["C17"]["kani_jobs"] = {"quick": 12, "thorough": 8}

# (first match wins: the n = 7 monomial triples are NOT "every function of this n")
PLAN["C15"]["kani_scope"] = dict([(r"from_lut_n7_mono", "bounded(n = 7, two-word tables: the 16 positive monomials of this range, one concrete table at a time)")]
                                 + list(PLAN["C15"]["kani_scope"].items()))

PLAN["C13"]["harness_timeout"] = {"quick": 900, "thorough": 3600}
