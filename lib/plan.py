"""Per-property plan: which units of which back end decide the property (DESIGN.md section 5)."""

TRUSTED_BASE = [
    "Verus 0.2026.09.13 + Z3, vstd specifications of slices/iterators/integers",
    "Kani 0.68.0 / CBMC 6.11 / CaDiCaL (bit-precise, full unwinding with unwinding assertions)",
    "rustc; derived PartialEq/Eq/Hash/Clone/Copy behave structurally",
    "mechanical extraction rules of DESIGN.md 2.3 (lib/splice.py)",
]

PLAN = {}

NOT_APPLICABLE = {
    "C07": "bdd_complexity: level_complexity uses step_by + Vec::retain/sort/dedup + closures, outside Verus's subset; CBMC does not finish one level of one word in 15 min; a contract on those helpers would assume the node count (DESIGN.md 10)",
    "C14": "Sop and/or/not/simplify: Vec::retain/sort/dedup/Iterator::all with capturing closures are outside Verus's subset; Kani runs out of memory (62 GB) on Sop::and of 2x1 cubes and does not finish !Sop of one cube in 20 min (DESIGN.md 10); the cube algebra they rely on is proved under C12",
    "C16": "Display of cubes/forms is text produced through core::fmt and read back by a parser: no fmt/str reasoning in Verus, one format! of one integer costs CBMC 75 s; a contract over an assumed write! would prove only concatenation order (DESIGN.md 10)",
    "C18": "MIP optimizers: optimality is a property of the external HiGHS solver behind FFI plus an ILP model; no contract within reach of Verus/Kani can express or decide it, and the optim-mip dependencies are not available offline (DESIGN.md 10)",
}

PLAN["C12"] = {
    "level": "proof",
    "technique": "Kani function contracts / contract triples on the real Cube methods (loop-free => complete over 2x32-bit masks), exhaustive ground evaluation of Cube::all(n<=5)",
    "level_text": "Every loop-free Cube method is proved against the property's semantic definition for all cubes over 32 variables and all assignments (complete, bit-precise); implies_lut is bounded to n<=4 and all(n) evaluated exhaustively for n<=5, as the property itself quantifies.",
    "level_note": "Trusted: Kani/CBMC/CaDiCaL, rustc. Preconditions var<32 / num_vars<32 derived from the code. Display (C16) and pos_vars/neg_vars not covered.",
    "kani_units": ["c12_cube.rs"],
    "kani_filters": {"quick": ["c12q_"], "thorough": ["c12t_"]},
    "kani_scope": {r"implies_lut_n(\d)": "bounded(n<=4: one harness per n)", r".*": "complete(all 32 variables; loop-free)"},
    "ground": {"units": ["g12_cube_all.rs"], "quick": ["g12q_"], "thorough": ["g12t_"]},
    "functions": ["Cube::value", "Cube::and", "Cube::implies", "Cube::intersects", "Cube::one", "Cube::zero", "Cube::nth_var",
                  "Cube::nth_var_inv", "Cube::minterm", "Cube::from_vars", "Cube::from_mask", "Cube::is_zero", "Cube::is_one",
                  "Cube::is_constant", "Cube::num_lits", "Cube::num_gates", "Cube::implies_lut", "Cube::all", "BitAnd for Cube (4 impls)"],
    "assumptions": [
        "preconditions derived from the code: variable index < 32 for nth_var/nth_var_inv/from_vars, num_vars < 32 for minterm (1 << 32 overflows u32)",
        "implies_lut is bounded to n <= 4 (the property's own range); Cube::all(n) is evaluated exhaustively for n <= 5",
        "pos_vars/neg_vars and Display are not covered (Display is property C16, not applicable)",
    ],
    "scope_note": "loop-free methods: complete over both 32-bit masks and every assignment; implies_lut bounded n<=4; all(n) exhaustive n<=5",
}
