"""Kani back end: overlay copy of /repo with contract modules appended, cargo kani, result parsing."""
import os
import re
import shutil
import time

import common
import rsx

KANI_FLAGS = ["-Z", "function-contracts", "-Z", "stubbing", "-Z", "unstable-options", "--no-assert-contracts"]


class KaniError(Exception):
    pass


class Harness:
    def __init__(self, name):
        self.name = name            # short name (last path segment)
        self.full = name
        self.status = None          # ok / failed / timeout / error
        self.time_s = 0.0
        self.failed_checks = []     # [{desc, loc, prop}]
        self.covers_total = 0
        self.covers_sat = 0
        self.checks_total = 0
        self.unsat_covers = []
        self.text = ""

    def to_json(self):
        return {"harness": self.name, "status": self.status, "time_s": round(self.time_s, 2),
                "checks": self.checks_total, "covers": "%d/%d" % (self.covers_sat, self.covers_total),
                "failed_checks": self.failed_checks[:8]}


def parse_unit_file(path):
    target = None
    attrs = []
    body = []
    for ln in open(path).read().split("\n"):
        if ln.startswith("//@target "):
            target = ln.split(None, 1)[1].strip()
        elif ln.startswith("//@attr "):
            _, q, a = ln.split(None, 2)
            attrs.append((q, a))
        else:
            body.append(ln)
    if not target:
        raise KaniError("%s: no //@target line" % path)
    return target, attrs, "\n".join(body)


def harness_names(text):
    """(name, kind) of every harness written out literally or through the *_harness! macros."""
    names = []
    for m in re.finditer(r"#\[kani::proof(?:_for_contract\([^)]*\))?\]\s*(?:#\[[^\]]*\]\s*)*fn\s+(\w+)", text):
        names.append(m.group(1))
    for m in re.finditer(r"^\s*\w+!\(\s*(c\d\d[qt]\w*)", text, re.M):
        names.append(m.group(1))
    return [n for n in names if re.match(r"c\d\d[qt]_", n)]


def build_overlay(unit_files, tag="k", extra_rewrites=None, copy_from=None, extra_dirs=None):
    """Copies the current working tree of /repo (src, Cargo.toml, Cargo.lock) and appends the
    contract modules.  Returns the overlay directory."""
    root = os.path.join(common.scratch(), "overlay_" + tag)
    shutil.rmtree(root, ignore_errors=True)
    os.makedirs(root)
    src_repo = copy_from or common.REPO
    shutil.copytree(os.path.join(src_repo, "src"), os.path.join(root, "src"))
    for f in ("Cargo.toml", "Cargo.lock"):
        src = os.path.join(src_repo, f)
        if not os.path.exists(src) and f == "Cargo.lock" and os.path.exists("/repo/Cargo.lock"):
            src = "/repo/Cargo.lock"      # (untracked file: a snapshot of HEAD does not carry it)
        shutil.copy(src, os.path.join(root, f))
    # benches are declared in Cargo.toml
    if os.path.isdir(os.path.join(src_repo, "benches")):
        shutil.copytree(os.path.join(src_repo, "benches"), os.path.join(root, "benches"))
    os.makedirs(os.path.join(root, ".cargo"), exist_ok=True)
    with open(os.path.join(root, ".cargo", "config.toml"), "w") as f:
        f.write("[net]\noffline = true\n")
    per_target = {}
    for uf in unit_files:
        target, attrs, body = parse_unit_file(uf)
        per_target.setdefault(target, []).append((uf, attrs, body))
    for target, lst in per_target.items():
        p = os.path.join(root, target)
        if not os.path.exists(p):
            raise KaniError("lost anchor: %s does not exist" % target)
        src = open(p).read()
        all_attrs = [a for (_, attrs, _) in lst for a in attrs]
        if all_attrs:
            F = rsx.File(src)
            ins = []
            for q, a in all_attrs:
                try:
                    fn = F.fn(q)
                except rsx.RsxError as e:
                    raise KaniError("lost anchor: %s" % e)
                ins.append((fn.fn_start, a + "\n"))
            for off, text in sorted(ins, reverse=True):
                src = src[:off] + text + src[off:]
        for uf, _, body in lst:
            src += "\n// ---- appended by /verif (%s)\n" % os.path.basename(uf) + body + "\n"
        with open(p, "w") as f:
            f.write(src)
    for srcdir, rel in (extra_dirs or []):
        shutil.copytree(os.path.join(common.CONTRACTS, srcdir), os.path.join(root, rel))
    if extra_rewrites:
        for rel, old, new in extra_rewrites:
            p = os.path.join(root, rel)
            s = open(p).read()
            if s.count(old) != 1:
                raise KaniError("lost anchor: %r occurs %d time(s) in %s" % (old, s.count(old), rel))
            open(p, "w").write(s.replace(old, new))
    return root


RESULT_RE = re.compile(r"^VERIFICATION:- (SUCCESSFUL|FAILED)", re.M)
THREAD_RE = re.compile(r"^Thread (\d+): ?(.*)$")


def demux(text):
    """cargo kani -j interleaves the output of its worker threads; every chunk starts with a
    `Thread N:` line.  Returns the list of per-harness blocks (each starts at `Checking harness`)."""
    cur_thread = None
    per_thread = {}
    order = []
    blocks = []
    cur = {}
    for ln in text.split("\n"):
        m = THREAD_RE.match(ln)
        if m:
            cur_thread = m.group(1)
            ln = m.group(2)
        elif ln.startswith("Checking harness "):
            cur_thread = "main"
        if cur_thread is None:
            continue
        if ln.startswith("Checking harness "):
            cur[cur_thread] = [ln]
            blocks.append(cur[cur_thread])
        elif cur_thread in cur:
            cur[cur_thread].append(ln)
            if ln.startswith("Verification Time:"):
                # block complete
                pass
    return ["\n".join(b) for b in blocks]


def parse_output(text):
    out = {}
    for blk in demux(text):
        m = re.match(r"Checking harness ([^\n]+?)\.\.\.", blk)
        if not m:
            continue
        full = m.group(1).strip()
        h = Harness(full.split("::")[-1])
        h.full = full
        h.text = blk
        m2 = RESULT_RE.search(blk)
        if re.search(r"CBMC timed out|timed out|TIMEOUT", blk):
            h.status = "timeout"
        elif m2:
            h.status = "ok" if m2.group(1) == "SUCCESSFUL" else "failed"
        else:
            h.status = "error"
        mt = re.search(r"Verification Time: ([0-9.]+)s", blk)
        if mt:
            h.time_s = float(mt.group(1))
        mc = re.search(r"\*\* (\d+) of (\d+) failed", blk)
        if mc:
            h.checks_total = int(mc.group(2))
        mv = re.search(r"\*\* (\d+) of (\d+) cover properties satisfied", blk)
        if mv:
            h.covers_sat, h.covers_total = int(mv.group(1)), int(mv.group(2))
        for fm in re.finditer(r"^Failed Checks: (.*)\n\s*File: \"(.*?)\", line (\d+), in (\S+)", blk, re.M):
            h.failed_checks.append({"desc": fm.group(1), "file": fm.group(2), "line": int(fm.group(3)), "fn": fm.group(4)})
        for fm in re.finditer(r"^Failed Checks: (.*)$", blk, re.M):
            if not any(x["desc"] == fm.group(1) for x in h.failed_checks):
                h.failed_checks.append({"desc": fm.group(1), "file": "", "line": 0, "fn": ""})
        if h.status == "failed" and not h.failed_checks and not re.search(r"\*\* \d+ of \d+ failed", blk):
            # CBMC crashed / ran out of memory / was killed: no verdict
            h.status = "error"
        out[h.name] = h
    return out


def run_kani(overlay, filters, jobs=None, harness_timeout=None, total_timeout=3600, features=None, exact=False, extra=None):
    """Runs cargo kani on the overlay for the harnesses matching `filters`.
    Returns (dict name->Harness, raw output, wall seconds, rc)."""
    tdir = os.path.join(overlay, "target")
    cmd = ["cargo", "kani"] + KANI_FLAGS + ["--target-dir", tdir]
    if features is None:
        cmd += ["--no-default-features"]
    else:
        cmd += ["--no-default-features", "--features", features] if features else ["--no-default-features"]
    for f in filters:
        cmd += ["--harness", f]
    if exact:
        cmd += ["--exact"]
    cmd += ["-j", str(jobs or common.ncpu()), "--output-format", "terse"]
    if harness_timeout:
        cmd += ["--harness-timeout", "%ds" % harness_timeout]
    if extra:
        cmd += extra
    env = {"CARGO_NET_OFFLINE": "true", "CARGO_TERM_COLOR": "never"}
    rc, out, err, wall = common.run(cmd, cwd=overlay, env=env, timeout=total_timeout, mem_gb=float(os.environ.get("VERIF_CBMC_MEM_GB", "24")))
    text = out + "\n" + err
    return parse_output(text), text, wall, rc, " ".join(cmd)


PLAYBACK_RE = re.compile(r"/// Test generated for harness `([^`]*)`\s*\n\s*///\s*\n\s*/// Check for `(\w+)`: \"(.*?)\"\s*\n\s*#\[test\]\s*\n\s*fn (\w+)\(\) \{(.*?)\n\s*\}\n", re.S)


def counterexample(overlay, harness_full, features=None, timeout=1800, returns=False):
    """Asks Kani for the concrete values of a failing harness (concrete playback), then executes
    the harness natively on them against the real code (`cargo kani playback`).
    Returns a dict for the replay file."""
    rep = {"harness": harness_full, "reproduced": False}
    short = harness_full.split("::")[-1]
    feat = ["--no-default-features"] + (["--features", features] if features else [])
    cmd = ["cargo", "kani"] + KANI_FLAGS + ["-Z", "concrete-playback", "--concrete-playback=print",
                                            "--target-dir", os.path.join(overlay, "target")] + feat + \
          (["--harness", harness_full, "--exact"] if "::" in harness_full else ["--harness", short]) + \
          ["--output-format", "terse", "--harness-timeout", "%ds" % timeout]
    env = {"CARGO_NET_OFFLINE": "true", "CARGO_TERM_COLOR": "never"}
    rc, out, err, wall = common.run(cmd, cwd=overlay, env=env, timeout=timeout + 300)
    text = out + "\n" + err
    if re.search(r"^VERIFICATION:- SUCCESSFUL", text, re.M) and not returns and "as expected" not in text:
        rep["note"] = "the re-run for counterexample extraction verified successfully: nothing refuted"
        rep["rerun_successful"] = True
        return rep
    tests = []
    for chunk in text.split("/// Test generated for harness `")[1:]:
        h = chunk.split("`", 1)[0]
        mk = re.search(r"/// Check for `(\w+)`: \"(.*?)\"\s*\n", chunk, re.S)
        mf = re.search(r"(#\[test\]\s*\n\s*fn (\w+)\(\) \{(.*?)\n\s*\}\n)", chunk, re.S)
        if not mk or not mf:
            continue
        kind, desc = mk.group(1), mk.group(2)
        fname, body = mf.group(2), mf.group(3)
        if h.split("::")[-1] != short or (kind == "cover") != returns:
            continue
        vals = re.findall(r"//\s*(-?\d+)\w*\s*\n\s*vec!\[([^\]]*)\]", body)
        tests.append({"test": fname, "check": desc, "values": [v[0] for v in vals],
                      "bytes": [[int(x) for x in v[1].split(",") if x.strip()] for v in vals],
                      "text": mf.group(1)})
    rep["kani_cmd"] = " ".join(cmd)
    if not tests:
        rep["note"] = "Kani produced no concrete playback test for a failed check"
        rep["kani_output_tail"] = text[-1500:]
        return rep
    rep["values"] = tests[0]["values"]
    rep["failed_check"] = tests[0]["check"]
    rep["tests"] = [{k: t[k] for k in ("test", "check", "values", "bytes")} for t in tests[:4]]
    # insert the generated unit tests into the overlay module that owns the harness and run them natively
    mod = harness_full.split("::")[-2] if "::" in harness_full else None
    target = None
    for dp, dn, fns in os.walk(os.path.join(overlay, "src")):
        for f in fns:
            p = os.path.join(dp, f)
            srcf = open(p).read()
            if re.search(r"fn\s+%s\b" % re.escape(short), srcf) or re.search(r"\b%s\b" % re.escape(short), srcf) and mod and ("mod " + mod) in srcf:
                target = p
    if target is None:
        rep["note"] = "could not locate the harness in the overlay"
        return rep
    srcf = open(target).read()
    mpos = srcf.rfind("mod " + mod) if mod else -1
    if mpos < 0:
        rep["note"] = "could not locate module %s" % mod
        return rep
    brace = srcf.index("{", mpos)
    # (the generated doc comment can span lines without `///`: keep the test item only)
    inject = "\n".join("    #[cfg(kani)]\n    " + t["text"][t["text"].index("#[test]"):] for t in tests[:4])
    open(target, "w").write(srcf[:brace + 1] + "\n" + inject + srcf[brace + 1:])
    names = [t["test"] for t in tests[:4]]
    pcmd = ["cargo", "kani", "playback", "-Z", "concrete-playback"] + feat + ["--", "kani_concrete_playback_" + short]
    env2 = dict(env)
    env2["CARGO_TARGET_DIR"] = os.path.join(overlay, "target", "playback")
    rc2, out2, err2, wall2 = common.run(pcmd, cwd=overlay, env=env2, timeout=timeout)
    t2 = out2 + "\n" + err2
    rep["playback_cmd"] = " ".join(pcmd)
    failed = re.findall(r"^test (\S+) \.\.\. FAILED", t2, re.M)
    passed = re.findall(r"^test (\S+) \.\.\. ok", t2, re.M)
    if returns:
        # the violation is that the call returns: natively the harness body then runs to its end without panicking
        rep["reproduced"] = bool(passed) and not failed
        rep["expectation"] = "the call with this invalid argument returns instead of panicking (native run completes)"
        if not rep["reproduced"]:
            rep["note"] = "native playback did not complete normally (rc=%s): %s" % (rc2, t2[-600:])
        return rep
    rep["reproduced"] = bool(failed)
    pm = re.findall(r"panicked at ([^\n]*)\n([^\n]*)", t2)
    rep["native_panics"] = ["%s: %s" % (a, b) for a, b in pm[:4]]
    if not failed:
        rep["note"] = "native playback did not fail (rc=%s): %s" % (rc2, t2[-600:])
    return rep
