"""rsx - a small lexer-level reader of Rust source (no type analysis).

It finds items (fn / const / impl) with byte spans, the loops inside a function
body (in source order, nested ones included) and the top-level statements of a
block.  Used by the Verus splicer and the Kani overlay builder.  Everything is
positional: nothing here looks at the text of an expression.
"""
import re


class RsxError(Exception):
    pass


IDENT_RE = re.compile(r"[A-Za-z_][A-Za-z0-9_]*")


class Tok:
    __slots__ = ("kind", "text", "start", "end")

    def __init__(self, kind, text, start, end):
        self.kind, self.text, self.start, self.end = kind, text, start, end

    def __repr__(self):
        return "Tok(%s,%r,%d)" % (self.kind, self.text, self.start)


def lex(src):
    """Tokens: ident, punct (one char), lit (string/char/number), comment, doc.
    Whitespace is skipped.  Lifetimes are returned as kind 'life'."""
    toks = []
    i, n = 0, len(src)
    while i < n:
        c = src[i]
        if c.isspace():
            i += 1
            continue
        if src.startswith("//", i):
            j = src.find("\n", i)
            if j < 0:
                j = n
            text = src[i:j]
            kind = "doc" if (text.startswith("///") and not text.startswith("////")) or text.startswith("//!") else "comment"
            toks.append(Tok(kind, text, i, j))
            i = j
            continue
        if src.startswith("/*", i):
            depth, j = 1, i + 2
            while j < n and depth:
                if src.startswith("/*", j):
                    depth += 1
                    j += 2
                elif src.startswith("*/", j):
                    depth -= 1
                    j += 2
                else:
                    j += 1
            toks.append(Tok("comment", src[i:j], i, j))
            i = j
            continue
        # raw strings / byte strings
        m = re.match(r'(b|c)?r(#*)"', src[i:i + 40])
        if m:
            hashes = m.group(2)
            close = '"' + hashes
            j = src.find(close, i + m.end())
            if j < 0:
                raise RsxError("unterminated raw string at %d" % i)
            j += len(close)
            toks.append(Tok("lit", src[i:j], i, j))
            i = j
            continue
        if c == '"' or (c in "bc" and i + 1 < n and src[i + 1] == '"'):
            j = i + (2 if c != '"' else 1)
            while j < n and src[j] != '"':
                j += 2 if src[j] == "\\" else 1
            j += 1
            toks.append(Tok("lit", src[i:j], i, j))
            i = j
            continue
        if c == "'" or (c == "b" and i + 1 < n and src[i + 1] == "'"):
            k = i + (1 if c == "'" else 2)
            # char literal or lifetime
            if k < n and src[k] == "\\":
                j = k + 2
                while j < n and src[j] != "'":
                    j += 1
                j += 1
                toks.append(Tok("lit", src[i:j], i, j))
                i = j
                continue
            if k + 1 < n and src[k + 1] == "'":
                toks.append(Tok("lit", src[i:k + 2], i, k + 2))
                i = k + 2
                continue
            m = IDENT_RE.match(src, k)
            if m and c == "'":
                toks.append(Tok("life", src[i:m.end()], i, m.end()))
                i = m.end()
                continue
            # multi-byte char literal like 'é'
            j = src.find("'", k)
            if j < 0:
                raise RsxError("bad quote at %d" % i)
            toks.append(Tok("lit", src[i:j + 1], i, j + 1))
            i = j + 1
            continue
        m = IDENT_RE.match(src, i)
        if m:
            toks.append(Tok("ident", m.group(0), i, m.end()))
            i = m.end()
            continue
        if c.isdigit():
            m = re.match(r"[0-9][0-9A-Za-z_]*(\.[0-9][0-9A-Za-z_]*)?", src[i:])
            toks.append(Tok("lit", m.group(0), i, i + m.end()))
            i += m.end()
            continue
        toks.append(Tok("punct", c, i, i + 1))
        i += 1
    return toks


OPEN = {"(": ")", "[": "]", "{": "}"}
CLOSE = {")", "]", "}"}


def code_toks(toks):
    return [t for t in toks if t.kind not in ("comment", "doc")]


def match_close(toks, i):
    """toks[i] is an opening bracket; return index of its matching close."""
    depth = 0
    for j in range(i, len(toks)):
        t = toks[j]
        if t.kind == "punct":
            if t.text in OPEN:
                depth += 1
            elif t.text in CLOSE:
                depth -= 1
                if depth == 0:
                    return j
    raise RsxError("unbalanced bracket at byte %d" % toks[i].start)


class Loop:
    def __init__(self):
        self.kind = None          # for / while / loop
        self.start = None         # byte offset of the keyword
        self.in_end = None        # for: byte offset just after ` in`
        self.pat = None           # for: pattern text
        self.expr_span = None     # for: iterated expression ; while: condition
        self.brace = None         # byte offset of body '{'
        self.close = None         # byte offset of body '}'
        self.depth = 0            # nesting depth among loops (0 = outermost)
        self.index = None
        self.block = None
        self.stmts = []           # (start, end) of top-level statements of the body


class Block:
    def __init__(self):
        self.kind = None          # fn / if / elseif / else / for / while / loop / block / unsafe
        self.open = None
        self.close = None
        self.index = None
        self.stmts = []


class Fn:
    def __init__(self):
        self.blocks = []
        self.name = None
        self.qual = None          # Type::name for methods
        self.impl_type = None
        self.impl_trait = None
        self.item_start = None    # start incl. attributes and doc comments
        self.attrs = []           # attribute texts
        self.fn_start = None      # offset of visibility/qualifiers/`fn`
        self.sig_end = None       # offset of body '{'
        self.ret_span = None      # span of the return type text (after `->`), or None
        self.where_start = None
        self.body_open = None
        self.body_close = None
        self.loops = []
        self.stmts = []


class Const:
    def __init__(self):
        self.name = None
        self.item_start = None
        self.start = None
        self.end = None           # after ';'
        self.ty_span = None
        self.val_span = None


class File:
    def __init__(self, src):
        self.src = src
        self.all = lex(src)
        self.toks = code_toks(self.all)
        self.fns = []
        self.consts = []
        self._scan_items(0, len(self.toks), None, None)

    # ---------------------------------------------------------------- items
    def _leading(self, idx):
        """Byte offset where the doc comments / attributes preceding code token
        idx begin, plus the attribute texts."""
        toks = self.toks
        attrs = []
        j = idx
        # walk back over attributes `#[...]`
        while j >= 2 and toks[j - 1].text == "]":
            # find matching '['
            depth = 0
            k = j - 1
            while k >= 0:
                if toks[k].text == "]":
                    depth += 1
                elif toks[k].text == "[":
                    depth -= 1
                    if depth == 0:
                        break
                k -= 1
            if k >= 1 and toks[k - 1].text == "#":
                attrs.insert(0, self.src[toks[k - 1].start:toks[j - 1].end])
                j = k - 1
            else:
                break
        start = toks[j].start if j < len(toks) else len(self.src)
        # extend over doc comments directly above
        for t in reversed([t for t in self.all if t.end <= start]):
            if t.kind == "doc" and self.src[t.end:start].strip() == "":
                start = t.start
            elif t.kind in ("doc",):
                break
            else:
                if t.kind == "comment" and self.src[t.end:start].strip() == "":
                    # plain comment directly above: keep it out
                    break
                break
        return start, attrs

    def _scan_items(self, lo, hi, impl_type, impl_trait):
        toks = self.toks
        i = lo
        while i < hi:
            t = toks[i]
            if t.kind == "ident" and t.text in ("impl",) and self._at_item_pos(i):
                # header up to '{'
                j = i + 1
                ang = 0
                while j < hi and not (toks[j].text == "{" and ang <= 0):
                    if toks[j].text == "<":
                        ang += 1
                    elif toks[j].text == ">" and toks[j - 1].text != "-":
                        ang -= 1
                    j += 1
                header = toks[i + 1:j]
                ity, itr = self._impl_names(header)
                k = match_close(toks, j)
                self._scan_items(j + 1, k, ity, itr)
                i = k + 1
                continue
            if t.kind == "ident" and t.text in ("mod", "trait") and self._at_item_pos(i):
                j = i + 1
                while j < hi and toks[j].text not in ("{", ";"):
                    j += 1
                if j < hi and toks[j].text == "{":
                    k = match_close(toks, j)
                    if t.text == "mod":
                        name = toks[i + 1].text
                        if name not in ("tests",) and not name.startswith("verif_"):
                            self._scan_items(j + 1, k, None, None)
                    i = k + 1
                    continue
                i = j + 1
                continue
            if t.kind == "ident" and t.text == "fn" and i + 1 < hi and toks[i + 1].kind == "ident":
                i = self._scan_fn(i, hi, impl_type, impl_trait)
                continue
            if t.kind == "ident" and t.text == "const" and i + 2 < hi and toks[i + 1].kind == "ident" \
                    and toks[i + 1].text != "fn" and toks[i + 2].text == ":" and self._at_item_pos(i):
                i = self._scan_const(i, hi)
                continue
            if t.kind == "punct" and t.text in OPEN:
                i = match_close(toks, i) + 1
                continue
            i += 1

    def _at_item_pos(self, i):
        if i == 0:
            return True
        p = self.toks[i - 1]
        return p.text in ("}", ";", "]", "{", "pub", "unsafe", ")") or p.kind == "ident" and p.text in ("pub", "unsafe")

    def _impl_names(self, header):
        # strip generics right after impl
        idx = 0
        if header and header[0].text == "<":
            d = 0
            for idx, t in enumerate(header):
                if t.text == "<":
                    d += 1
                elif t.text == ">":
                    d -= 1
                    if d == 0:
                        idx += 1
                        break
        rest = header[idx:]
        for_pos = None
        d = 0
        for k, t in enumerate(rest):
            if t.text == "<":
                d += 1
            elif t.text == ">":
                d -= 1
            elif t.kind == "ident" and t.text == "for" and d == 0:
                for_pos = k
        def first_ident(ts):
            names = [t.text for t in ts if t.kind == "ident" and t.text not in ("dyn", "mut", "const", "crate", "std", "core", "ops", "fmt", "cmp")]
            # type name = last ident before first '<' at depth 0 of a path
            out = None
            d = 0
            for t in ts:
                if t.text == "<":
                    if d == 0:
                        break
                    d += 1
                if t.kind == "ident" and t.text not in ("dyn", "mut", "where"):
                    out = t.text
                if t.kind == "ident" and t.text == "where":
                    break
            return out
        if for_pos is None:
            return first_ident(rest), None
        return first_ident(rest[for_pos + 1:]), first_ident(rest[:for_pos])

    def _scan_const(self, i, hi):
        toks = self.toks
        c = Const()
        c.name = toks[i + 1].text
        s = i
        if s > 0 and toks[s - 1].text == ")" :
            # pub(crate)
            k = s - 1
            while toks[k].text != "(":
                k -= 1
            s = k - 1
        elif s > 0 and toks[s - 1].text == "pub":
            s -= 1
        c.start = toks[s].start
        c.item_start, _ = self._leading(s)
        # type until '=' at depth 0
        j = i + 3
        d = 0
        while j < hi:
            tt = toks[j].text
            if tt in OPEN:
                j = match_close(toks, j) + 1
                continue
            if tt == "=" and d == 0:
                break
            if tt == ";":
                break
            j += 1
        c.ty_span = (toks[i + 3].start, toks[j - 1].end)
        k = j + 1
        while k < hi and toks[k].text != ";":
            if toks[k].text in OPEN:
                k = match_close(toks, k) + 1
                continue
            k += 1
        c.val_span = (toks[j + 1].start, toks[k - 1].end) if toks[j].text == "=" else None
        c.end = toks[k].end
        self.consts.append(c)
        return k + 1

    def _scan_fn(self, i, hi, impl_type, impl_trait):
        toks = self.toks
        f = Fn()
        f.name = toks[i + 1].text
        f.impl_type, f.impl_trait = impl_type, impl_trait
        f.qual = (impl_type + "::" + f.name) if impl_type else f.name
        # qualifiers before fn: pub, pub(crate), const, unsafe, async, extern "C"
        s = i
        while s > 0:
            p = toks[s - 1]
            if p.kind == "ident" and p.text in ("pub", "const", "unsafe", "async", "extern", "default"):
                s -= 1
            elif p.text == ")" and s >= 4 and toks[s - 2].kind == "ident" and toks[s - 3].text == "(" and toks[s - 4].text == "pub":
                s -= 4
            elif p.kind == "lit" and s >= 2 and toks[s - 2].text == "extern":
                s -= 2
            else:
                break
        f.fn_start = toks[s].start
        f.item_start, f.attrs = self._leading(s)
        # find params '(' ... ')', then '->' type, where, then '{' or ';'
        j = i + 2
        if toks[j].text == "<":
            d = 0
            while True:
                if toks[j].text == "<":
                    d += 1
                elif toks[j].text == ">" and toks[j - 1].text != "-":
                    d -= 1
                    if d == 0:
                        j += 1
                        break
                j += 1
        if toks[j].text != "(":
            raise RsxError("fn %s: expected '(' at %d" % (f.name, toks[j].start))
        j = match_close(toks, j) + 1
        ret_lo = None
        if j + 1 < hi and toks[j].text == "-" and toks[j + 1].text == ">":
            ret_lo = j + 2
            j += 2
        k = j
        ang = 0
        while k < hi:
            tt = toks[k]
            if tt.text == "<":
                ang += 1
            elif tt.text == ">" and toks[k - 1].text != "-":
                ang -= 1
            elif tt.text in ("(", "["):
                k = match_close(toks, k)
            elif tt.kind == "ident" and tt.text == "where" and ang <= 0:
                if f.where_start is None:
                    f.where_start = tt.start
                    if ret_lo is not None and f.ret_span is None:
                        f.ret_span = (toks[ret_lo].start, toks[k - 1].end)
            elif tt.text == "{" and ang <= 0:
                break
            elif tt.text == ";" and ang <= 0:
                # declaration without body
                return k + 1
            k += 1
        if ret_lo is not None and f.ret_span is None:
            f.ret_span = (toks[ret_lo].start, toks[k - 1].end)
        f.sig_end = toks[k].start
        f.body_open = toks[k].start
        kc = match_close(toks, k)
        f.body_close = toks[kc].start
        f.blocks = []
        f.loops = []
        self._parse_block(k, f, "fn", 0)
        f.stmts = f.blocks[0].stmts
        self.fns.append(f)
        # nested fns are not scanned
        return kc + 1

    # --------------------------------------------------------------- blocks
    def _parse_block(self, lo_open, f, kind, loop_depth):
        """toks[lo_open] is '{'.  Registers the block (pre-order) and returns it."""
        toks = self.toks
        hi = match_close(toks, lo_open)
        B = Block()
        B.kind = kind
        B.open = toks[lo_open].start
        B.close = toks[hi].start
        B.index = len(f.blocks)
        f.blocks.append(B)
        i = lo_open + 1
        while i < hi:
            s = i
            if toks[i].kind == "life" and toks[i + 1].text == ":":
                i += 2
            first = toks[i]
            kw = first.text if first.kind == "ident" else None
            if kw in ("if", "for", "while", "loop", "unsafe") or first.text == "{":
                j = self._parse_control(i, hi, f, loop_depth)
                if j < hi and toks[j].text == ";":
                    j += 1
                elif j < hi and toks[j].text in (".", "?"):
                    j = self._to_semicolon(j, hi)
            else:
                j = self._to_semicolon(i, hi)
            B.stmts.append((toks[s].start, toks[min(j, hi) - 1].end))
            i = j
        return B

    def _to_semicolon(self, j, hi):
        toks = self.toks
        while j < hi:
            tt = toks[j]
            if tt.text in OPEN:
                j = match_close(toks, j) + 1
                continue
            if tt.text == ";":
                return j + 1
            j += 1
        return hi

    def _first_brace(self, j):
        toks = self.toks
        while toks[j].text != "{":
            if toks[j].text in ("(", "["):
                j = match_close(toks, j)
            j += 1
        return j

    def _parse_control(self, i, hi, f, loop_depth):
        """Parses the control statement starting at toks[i]; returns index after it."""
        toks = self.toks
        t = toks[i]
        if t.text == "{":
            self._parse_block(i, f, "block", loop_depth)
            return match_close(toks, i) + 1
        if t.text == "unsafe":
            j = self._first_brace(i + 1)
            self._parse_block(j, f, "unsafe", loop_depth)
            return match_close(toks, j) + 1
        if t.text == "if":
            j = i
            while True:
                b = self._first_brace(j + 1)
                self._parse_block(b, f, "if" if j == i else "elseif", loop_depth)
                j = match_close(toks, b) + 1
                if j < hi and toks[j].kind == "ident" and toks[j].text == "else":
                    if toks[j + 1].kind == "ident" and toks[j + 1].text == "if":
                        j = j + 1
                        continue
                    self._parse_block(j + 1, f, "else", loop_depth)
                    j = match_close(toks, j + 1) + 1
                return j
        # loops
        L = Loop()
        L.kind = t.text
        L.start = t.start
        if i >= 2 and toks[i - 1].text == ":" and toks[i - 2].kind == "life":
            L.start = toks[i - 2].start
        L.depth = loop_depth
        L.index = len(f.loops)
        j = i + 1
        if t.text == "for":
            while not (toks[j].kind == "ident" and toks[j].text == "in"):
                if toks[j].text in OPEN:
                    j = match_close(toks, j)
                j += 1
            L.pat = self.src[toks[i + 1].start:toks[j - 1].end]
            L.in_end = toks[j].end
            j += 1
        e0 = j
        j = self._first_brace(j)
        if j > e0:
            L.expr_span = (toks[e0].start, toks[j - 1].end)
        L.brace = toks[j].start
        jc = match_close(toks, j)
        L.close = toks[jc].start
        f.loops.append(L)
        L.block = self._parse_block(j, f, t.text, loop_depth + 1)
        L.stmts = L.block.stmts
        return jc + 1

    # -------------------------------------------------------------- lookups
    def fn(self, name):
        c = [f for f in self.fns if f.qual == name or (f.name == name and "::" not in name and f.impl_type is None)]
        if not c:
            c = [f for f in self.fns if f.name == name]
        if not c:
            raise RsxError("function %s not found" % name)
        if len(c) > 1:
            raise RsxError("function %s is ambiguous (%d candidates)" % (name, len(c)))
        return c[0]

    def const(self, name):
        c = [k for k in self.consts if k.name == name]
        if len(c) != 1:
            raise RsxError("const %s not found" % name)
        return c[0]


def line_of(src, off):
    return src.count("\n", 0, off) + 1
