"""Verus back end: generate the unit file from /repo's current text, run verus, classify."""
import json
import os
import re
import time

import common
import splice

VERUS = os.environ.get("VERIF_VERUS", "verus")

ASSUME_PATTERNS = [
    (re.compile(r"assume_specification\s*(<[^\[]*>)?\s*\[([^\]]*(?:\[[^\]]*\][^\]]*)*)\]"), "assume_specification"),
    (re.compile(r"#\[verifier::external_body\]\s*(?:pub\s+)?(?:exec\s+)?(?:proof\s+)?(?:const|fn)\s+(\w+)"), "external_body"),
    (re.compile(r"\bassume\s*\("), "assume"),
    (re.compile(r"\badmit\s*\("), "admit"),
    (re.compile(r"#\[verifier::external\b"), "external"),
]


class FnResult:
    def __init__(self, name):
        self.name = name
        self.ok = None
        self.time_ms = 0
        self.messages = []
        self.kind = "exec"     # exec / proof / spec

    def to_json(self):
        return {"name": self.name, "ok": self.ok, "time_ms": self.time_ms, "mode": self.kind, "messages": self.messages[:6]}


class UnitResult:
    def __init__(self, unit, profile, vacuity):
        self.unit = unit
        self.profile = profile
        self.vacuity = vacuity
        self.status = None          # ok / failed / undecided
        self.reason = ""
        self.fns = {}               # name -> FnResult (contracted real functions and lemmas)
        self.contracted = []        # names of real functions under contract
        self.stubs = []
        self.verified = 0
        self.errors = 0
        self.wall_s = 0.0
        self.smt_ms = 0
        self.path = None
        self.stderr = ""
        self.assumptions = []
        self.cmd = ""
        self.lost = {}              # function -> reason: could not be brought before the verifier (stubbed by its own contract)

    def failed_fns(self):
        return [n for n, r in self.fns.items() if r.ok is False]


_units_cache = {}


def load_units():
    d = os.path.join(common.CONTRACTS, "verus")
    out = {}
    for fn in sorted(os.listdir(d)):
        if fn.endswith(".vu"):
            p = os.path.join(d, fn)
            out[fn[:-3]] = splice.parse_unit(p, d)
    return out


def scan_assumptions(text):
    found = []
    for rx, kind in ASSUME_PATTERNS:
        for m in rx.finditer(text):
            if kind == "assume_specification":
                found.append("assume_specification[%s]" % re.sub(r"\s+", " ", m.group(2)).strip())
            elif kind == "external_body":
                found.append("external_body %s" % m.group(1))
            else:
                line = text.count("\n", 0, m.start()) + 1
                found.append("%s( at generated line %d" % (kind, line))
    seen = []
    for f in found:
        if f not in seen:
            seen.append(f)
    return seen


DIAG_RE = re.compile(r"^(error|warning|note)(\[[A-Z0-9]+\])?: (.*)$")
LOC_RE = re.compile(r"^\s*--> (.*?):(\d+):(\d+)")


def parse_diags(stderr):
    """[(level, code, msg, line)]"""
    out = []
    cur = None
    for ln in stderr.split("\n"):
        m = DIAG_RE.match(ln)
        if m:
            cur = [m.group(1), m.group(2), m.group(3), None]
            out.append(cur)
            continue
        m = LOC_RE.match(ln)
        if m and cur is not None and cur[3] is None:
            cur[3] = int(m.group(2))
    return out


def run_unit(units, name, profile="debug", vacuity=False, extra_args=None, timeout=900, tag="", force_stub=(), _depth=0):
    u = units[name]
    res = UnitResult(name, profile, vacuity)
    t0 = time.time()
    try:
        text, fn_names, labels = splice.generate(u, common.REPO, os.path.join(common.CONTRACTS, "verus"),
                                                 profile=profile, vacuity=vacuity, units_by_name=units, force_stub=force_stub)
    except splice.SpliceError as e:
        # a lost anchor inside one function: that function becomes undecided, the rest of the unit is still checked
        m = re.search(r"(?:in|of|:) (\w+)(?: has| \w+ has|$)", str(e))
        cand = [fc.name for fc in u.fn_contracts() if not fc.is_stub and re.search(r"\b%s\b" % re.escape(fc.name), str(e))]
        if cand and _depth < 3 and not set(cand) <= set(force_stub):
            r2 = run_unit(units, name, profile, vacuity, extra_args, timeout, tag, tuple(set(force_stub) | set(cand)), _depth + 1)
            for c in cand:
                r2.lost[c] = "extraction: %s" % e
            return r2
        res.status = "undecided"
        res.reason = "extraction: %s" % e
        res.wall_s = time.time() - t0
        return res
    except Exception as e:
        res.status = "undecided"
        res.reason = "extraction: %s" % e
        res.wall_s = time.time() - t0
        return res
    res.contracted = fn_names + [f for f in force_stub if f not in fn_names]
    res.stubs = [l[2] for l in labels if l[3]]
    d = os.path.join(common.scratch(), "verus")
    os.makedirs(d, exist_ok=True)
    fname = "%s_%s%s%s.rs" % (name, profile, "_vac" if vacuity else "", tag)
    path = os.path.join(d, fname)
    with open(path, "w") as f:
        f.write(text)
    res.path = path
    res.assumptions = scan_assumptions(text)
    cmd = [VERUS, fname, "--output-json", "--time", "--crate-name", name]
    if extra_args:
        cmd += extra_args
    res.cmd = " ".join(cmd)
    rc, out, err, wall = common.run(cmd, cwd=d, timeout=timeout)
    res.wall_s = time.time() - t0
    res.stderr = err
    if rc == -9:
        res.status = "undecided"
        res.reason = "verus timeout after %ds" % timeout
        return res
    try:
        j = json.loads(out[out.index("{"):])
    except (ValueError, IndexError):
        res.status = "undecided"
        res.reason = "verus produced no result (rc=%s): %s" % (rc, err.strip()[-1500:])
        return res
    vr = j.get("verification-results", {})
    res.verified = vr.get("verified", 0)
    res.errors = vr.get("errors", 0)
    diags = parse_diags(err)
    if vr.get("encountered-vir-error") or (not vr.get("success") and res.errors == 0):
        msgs = ["%s%s: %s (line %s)" % (d_[0], d_[1] or "", d_[2], d_[3]) for d_ in diags if d_[0] == "error"]
        # which contracted functions own the offending lines?  Stub exactly those by their own contract and retry, so
        # that one function leaving the verifier's subset does not take the whole unit with it.
        owners = set()
        for d_ in diags:
            if d_[0] == "error" and d_[3]:
                for a, b, nm, stub in labels:
                    if a <= d_[3] <= b and not stub and nm in fn_names:
                        owners.add(nm)
        if owners and _depth < 3 and not owners <= set(force_stub):
            r2 = run_unit(units, name, profile, vacuity, extra_args, timeout, tag, tuple(set(force_stub) | owners), _depth + 1)
            for c in owners:
                r2.lost[c] = "outside the verifier's subset: " + "; ".join(m for m in msgs[:3])
            return r2
        res.status = "undecided"
        res.reason = "generated file does not compile under Verus: " + "; ".join(msgs[:4])
        return res
    # per-function breakdown
    try:
        smt = j["times-ms"]["smt"]
        res.smt_ms = smt.get("total", 0)
        for mod in smt.get("smt-run-module-times", []):
            for fb in mod.get("function-breakdown", []):
                nm = fb["function"].split("::")[-1]
                r = res.fns.setdefault(nm, FnResult(nm))
                r.kind = fb.get("mode:", fb.get("mode", "exec"))
                r.time_ms += fb.get("time", 0)
                if fb.get("success") is False:
                    r.ok = False
                elif r.ok is None:
                    r.ok = True
    except (KeyError, TypeError):
        pass
    # diagnostics -> function by generated line
    lines = text.split("\n")

    def owner(line):
        for a, b, nm, stub in labels:
            if a <= line <= b:
                return nm
        k = min(line, len(lines)) - 1
        while k >= 0:
            m = re.search(r"\bfn\s+(\w+)", lines[k])
            if m and not lines[k].lstrip().startswith("//"):
                return m.group(1)
            k -= 1
        return "?"

    rlimit = False
    for lvl, code, msg, line in diags:
        if lvl != "error" or msg.startswith("aborting due to"):
            continue
        nm = owner(line) if line else "?"
        r = res.fns.setdefault(nm, FnResult(nm))
        r.ok = False
        r.messages.append("%s (generated line %s: %s)" % (msg, line, lines[line - 1].strip()[:120] if line and line <= len(lines) else ""))
        if "rlimit" in msg or "Resource limit" in msg:
            rlimit = True
    for nm in fn_names:
        r = res.fns.setdefault(nm, FnResult(nm))
        if r.ok is None:
            # a function with no SMT query of its own still counts as checked when the run succeeded
            r.ok = True
    for nm in force_stub:
        r = res.fns.setdefault(nm, FnResult(nm))
        r.ok = None
    if res.errors == 0 and vr.get("success"):
        res.status = "ok"
    else:
        res.status = "failed"
        if rlimit:
            res.reason = "rlimit"
    return res
