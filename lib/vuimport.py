#!/usr/bin/env python3
"""vuimport - development tool: turn an annotated function (real text + ghost
text, as one writes it while iterating with Verus) into the anchored @@fn
section of a unit file.  The alignment is a token-level subsequence match in
which extra (ghost) tokens may only sit at the structural anchors that
splice.py knows.  The result is checked by the caller with a round trip.

usage: vuimport.py <annotated.rs> <fn name> <repo source file> [<fn name> ...]
"""
import sys
import os
sys.path.insert(0, os.path.dirname(os.path.abspath(__file__)))
import rsx


def anchors_for(F, f):
    """token-index (into the fn's code tokens) -> anchor descriptor, by priority."""
    toks = [t for t in F.toks if f.fn_start <= t.start <= f.body_close]
    idx_of = {t.start: i for i, t in enumerate(toks)}
    anc = {}

    def put(off, desc, prio):
        i = idx_of[off]
        if i not in anc or anc[i][0] < prio:
            anc[i] = (prio, desc)

    def after(off_tok_start):
        return idx_of[off_tok_start] + 1

    def put_i(i, desc, prio):
        if i not in anc or anc[i][0] < prio:
            anc[i] = (prio, desc)

    for B in f.blocks[1:]:
        if any(L.block is B for L in f.loops):
            continue
        for j, s in enumerate(B.stmts):
            put(s[0], ("block_stmt", B.index, j), 2)
        put_i(after(B.open), ("block_begin", B.index, None), 3)
        put(B.close, ("block_end", B.index, None), 1)
    for j, s in enumerate(f.stmts):
        put(s[0], ("body_stmt", None, j), 1)
    put_i(after(f.body_open), ("body_begin", None, None), 3)
    put(f.body_close, ("body_end", None, None), 0)
    for k, L in enumerate(f.loops):
        for j, s in enumerate(L.stmts):
            put(s[0], ("loop_stmt", k, j), 3 + L.depth)
    for k, L in enumerate(f.loops):
        put_i(after(L.brace), ("loop_begin", k, None), 20)
        put(L.close, ("loop_end", k, None), 10 + L.depth)
        put_i(after(L.close), ("loop_post", k, None), 30)
        put(L.start, ("loop_pre", k, None), 40)
        put(L.brace, ("loop_head", k, None), 50)
        if L.kind == "for":
            # after `in`
            in_tok = [t for t in toks if t.end == L.in_end][0]
            put_i(idx_of[in_tok.start] + 1, ("loop_binder", k, None), 60)
    put(f.sig_end, ("sig", None, None), 70)
    if f.ret_span:
        put(f.ret_span[0], ("ret_open", None, None), 80)
        last = [t for t in toks if t.end == f.ret_span[1]][0]
        if idx_of[last.start] + 1 == idx_of[f.sig_end]:
            # ret_close coincides with sig: handled in emit
            pass
        else:
            put_i(idx_of[last.start] + 1, ("ret_close", None, None), 80)
    return toks, {i: d for i, (p, d) in anc.items()}


def find_annotated_fn(src, name):
    A = rsx.File.__new__(rsx.File)
    A.src = src
    A.all = rsx.lex(src)
    A.toks = rsx.code_toks(A.all)
    toks = A.toks
    for i, t in enumerate(toks):
        if t.kind == "ident" and t.text == "fn" and toks[i + 1].text == name:
            # start: walk back over qualifiers
            s = i
            while s > 0 and toks[s - 1].kind == "ident" and toks[s - 1].text in ("pub", "const", "unsafe"):
                s -= 1
            # body: first '{' at depth 0 after the parameter list whose previous context is the sig;
            j = i + 2
            while toks[j].text != "(":
                j += 1
            j = rsx.match_close(toks, j) + 1
            # skip requires/ensures: the body '{' is the last '{' at depth 0 such that its match ends the item:
            # scan for '{' at depth 0 that is not part of an expression: heuristic - the '{' preceded by a newline-only line
            # simpler: the annotated style always puts the body brace alone at line start: "\n{"
            while True:
                if toks[j].text in ("(", "["):
                    j = rsx.match_close(toks, j) + 1
                    continue
                if toks[j].text == "{":
                    line_start = src.rfind("\n", 0, toks[j].start) + 1
                    if src[line_start:toks[j].start].strip() == "" or not _in_spec_clause(toks, i, j):
                        break
                    j = rsx.match_close(toks, j) + 1
                    continue
                j += 1
            jc = rsx.match_close(toks, j)
            return toks[s:jc + 1]
    raise SystemExit("annotated fn %s not found" % name)


def _in_spec_clause(toks, i, j):
    for t in toks[i:j]:
        if t.kind == "ident" and t.text in ("requires", "ensures", "decreases", "recommends"):
            return True
    return False


def align(atoks, rtoks, anchors):
    A, R = len(atoks), len(rtoks)
    can = [bytearray(R + 2) for _ in range(A + 2)]
    can[A][R] = 1
    for ai in range(A - 1, -1, -1):
        row, nxt = can[ai], can[ai + 1]
        at = atoks[ai].text
        for ri in range(R, -1, -1):
            ok = 0
            if ri < R and at == rtoks[ri].text and nxt[ri + 1]:
                ok = 1
            elif ri in anchors and nxt[ri]:
                ok = 1
            row[ri] = ok
    if not can[0][0]:
        return None
    out = []   # (ri, [annotated tokens]) ghost runs
    ai = ri = 0
    run = None
    depth = 0
    while ai < A:
        at = atoks[ai].text
        real_ok = ri < R and at == rtoks[ri].text and can[ai + 1][ri + 1]
        ghost_ok = ri in anchors and can[ai + 1][ri]
        if run is not None and depth > 0 and ghost_ok:
            choose_ghost = True
        elif real_ok:
            choose_ghost = False
        else:
            choose_ghost = True
        if choose_ghost:
            if run is None:
                run = (ri, [])
                out.append(run)
                depth = 0
            run[1].append(atoks[ai])
            if at in rsx.OPEN:
                depth += 1
            elif at in rsx.CLOSE:
                depth -= 1
            ai += 1
        else:
            run = None
            ai += 1
            ri += 1
    return out


def import_fn(annotated_src, name, F):
    f = F.fn(name)
    rtoks, anchors = anchors_for(F, f)
    atoks = find_annotated_fn(annotated_src, name)
    # drop leading attributes of the annotated fn: handled by caller
    runs = align(atoks, rtoks, anchors)
    if runs is None:
        raise SystemExit("cannot align annotated %s with the real function (real code differs?)" % name)
    lines = ["@@fn " + name]
    pending_binder = {}
    sections = []
    for ri, toks in runs:
        kind, k, j = anchors[ri]
        text = annotated_src[toks[0].start:toks[-1].end]
        # keep the leading indentation of the first line
        ls = annotated_src.rfind("\n", 0, toks[0].start) + 1
        if annotated_src[ls:toks[0].start].strip() == "":
            text = annotated_src[ls:toks[0].start] + text
        if kind == "ret_open":
            # "(r:"
            nm = toks[1].text
            lines.append("@ret " + nm)
        elif kind == "ret_close":
            pass
        elif kind == "sig":
            t = toks
            if t[0].text == ")":
                t = t[1:]
                text = annotated_src[t[0].start:t[-1].end] if t else ""
            sections.append(("@sig", "    " + text.strip()))
        elif kind == "loop_binder":
            pending_binder[k] = toks[0].text
        elif kind == "loop_head":
            b = pending_binder.pop(k, None)
            sections.append(("@loop %d head%s" % (k, " " + b if b else ""), text))
        elif kind in ("loop_pre", "loop_post", "loop_begin", "loop_end"):
            sections.append(("@loop %d %s" % (k, kind[5:]), text))
        elif kind == "loop_stmt":
            sections.append(("@loop %d stmt %d pre" % (k, j), text))
        elif kind == "block_stmt":
            sections.append(("@block %d stmt %d pre" % (k, j), text))
        elif kind in ("block_begin", "block_end"):
            sections.append(("@block %d %s" % (k, kind[6:]), text))
        elif kind == "body_stmt":
            sections.append(("@body stmt %d pre" % j, text))
        elif kind == "body_begin":
            sections.append(("@body begin", text))
        elif kind == "body_end":
            sections.append(("@body end", text))
    for k, b in pending_binder.items():
        sections.append(("@loop %d head %s" % (k, b), ""))
    for h, t in sections:
        lines.append(h)
        if t:
            lines.append(t)
    return "\n".join(lines) + "\n"


if __name__ == "__main__":
    ann = open(sys.argv[1]).read()
    F = rsx.File(open(sys.argv[2]).read())
    for nm in sys.argv[3:]:
        sys.stdout.write(import_fn(ann, nm, F))
